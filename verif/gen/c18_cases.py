"""C18 instance families: every std combinational helper named in the property x parameters.

An *instance* is one call shape of one helper with all compile-time parameters fixed:

    {"key":    canonical identity, e.g. "rol/w=4/n=3",
     "helper": helper name (for statistics),
     "ins":    ((port, kind, width), ...)   kind in bv | u | s | bit
     "outs":   ((kind, width), ...)         'u' outputs: width = a generous port width (value compared)
     "body":   [python source lines]        uses the input names and o0, o1, ...   (o_i <<= result)
     "ref":    name in verif.ref.c18_defs.REF,   "p": its parameter dict,
     "valid":  name in VALID | None          restriction of the input alphabet}

The body is emitted as a module level function  f(<inputs>, <outputs>)  that is (1) called with cohdl
constants and collector objects (Python level) and (2) called from a std.concurrent context of a
wrapper entity with ports (compiled level).  The same source text serves both levels.
"""
from __future__ import annotations

import itertools

from ..ref.c18_defs import ASSOCIATIVE, OPS

TYPE = {"bv": "BitVector[{w}]", "u": "Unsigned[{w}]", "s": "Signed[{w}]", "bit": "Bit"}


# cohdl text of the named ordering predicates of verif.ref.c18_defs.CMPS (operands: Unsigned / Signed values)
CMP_TEXT = {
    "lt": "lambda a, b: a < b",
    "gt": "lambda a, b: a > b",
    "slt": "lambda a, b: a.signed < b.signed",
    "sgt": "lambda a, b: a.signed > b.signed",
    "ult": "lambda a, b: a.unsigned < b.unsigned",
    "ugt": "lambda a, b: a.unsigned > b.unsigned",
    "shr1lt": "lambda a, b: (a >> 1) < (b >> 1)",
    "shr1gt": "lambda a, b: (a >> 1) > (b >> 1)",
}


def cmp_alternatives(kind, w):
    """explicit cmp= alternatives for operands of the given kind: natural, descending, the other
    signedness (both directions), and an order in which neighbouring values tie"""
    if kind == "u":
        names = ["lt", "gt"]
        if w >= 2:
            names += ["slt", "sgt", "shr1lt", "shr1gt"]
    else:
        names = ["lt", "gt", "ult", "ugt"]
    return names


def tname(kind, w):
    return TYPE[kind].format(w=w)


def inst(key, helper, ins, outs, body, ref, p=None, valid=None):
    if isinstance(body, str):
        body = [body]
    return {"key": key, "helper": helper, "ins": tuple(tuple(i) for i in ins), "outs": tuple(tuple(o) for o in outs),
            "body": list(body), "ref": ref, "p": dict(p or {}), "valid": valid, "vals": "full"}


def ubits(maxval):
    """generous width of an Unsigned output port able to hold maxval"""
    return max(1, int(maxval).bit_length()) + 2


# =============================================================================================
# one vector operand
# =============================================================================================
def fam_unary(w):
    A = [("a", "bv", w)]
    cnt = [("u", ubits(w))]
    # population counts, every batch size
    for bs in (None, 1, 2, 3, 4, 6):
        arg = "" if bs is None else f", batch_size={bs}"
        yield inst(f"count_set_bits/w={w}/bs={bs}", "count_set_bits", A, cnt,
                   f"o0 <<= std.count_set_bits(a{arg})", "popcount", {"w": w})
        yield inst(f"count_clear_bits/w={w}/bs={bs}", "count_clear_bits", A, cnt,
                   f"o0 <<= std.count_clear_bits(a{arg})", "clearcount", {"w": w})
    for conv in ("unsigned", "signed"):
        yield inst(f"count_set_bits/w={w}/arg={conv}", "count_set_bits", A, cnt,
                   f"o0 <<= std.count_set_bits(a.{conv})", "popcount", {"w": w})
        yield inst(f"count_clear_bits/w={w}/arg={conv}", "count_clear_bits", A, cnt,
                   f"o0 <<= std.count_clear_bits(a.{conv}, batch_size=2)", "clearcount", {"w": w})
    # leading / trailing runs
    for side, sname in (("l", "leading"), ("t", "trailing")):
        for ch, cname in (("0", "zeros"), ("1", "ones")):
            for conv in ("", ".unsigned", ".signed"):
                yield inst(f"count_{sname}_{cname}/w={w}/arg=a{conv}", f"count_{sname}_{cname}", A, cnt,
                           f"o0 <<= std.count_{sname}_{cname}(a{conv})", "count_lt", {"w": w, "side": side, "ch": ch})
    for conv in ("", ".unsigned", ".signed"):
        yield inst(f"is_one_hot/w={w}/arg=a{conv}", "is_one_hot", A, [("bit", 1)],
                   f"o0 <<= std.is_one_hot(a{conv})", "is_one_hot", {"w": w})
    for conv in ("", ".unsigned"):
        yield inst(f"reverse_bits/w={w}/arg=a{conv}", "reverse_bits", A, [("bv", w)],
                   f"o0 <<= std.reverse_bits(a{conv})", "reverse", {"w": w})
    # one_hot with a constant position (no run-time operand)
    for pos in range(w):
        yield inst(f"one_hot/w={w}/pos={pos}", "one_hot", A, [("bv", w)],
                   f"o0 <<= std.one_hot({w}, {pos})", "one_hot", {"w": w, "pos": pos})
    # rotations: 0 <= n <= width is what the helper accepts; the default is n=1
    for fn, ref in (("rol", "rol"), ("ror", "ror")):
        yield inst(f"{fn}/w={w}/n=default", fn, A, [("bv", w)], f"o0 <<= std.{fn}(a)", ref, {"w": w, "n": 1})
        for n in range(0, w + 1):
            yield inst(f"{fn}/w={w}/n={n}", fn, A, [("bv", w)], f"o0 <<= std.{fn}(a, {n})", ref, {"w": w, "n": n})
    # repeat / stretch
    for t in (1, 2, 3, 4, 5):
        yield inst(f"repeat/w={w}/times={t}", "repeat", A, [("bv", w * t)],
                   f"o0 <<= std.repeat(a, {t})", "repeat", {"widths": {"a": w}, "times": t})
        yield inst(f"stretch/w={w}/factor={t}", "stretch", A, [("bv", w * t)],
                   f"o0 <<= std.stretch(a, {t})", "stretch", {"widths": {"a": w}, "factor": t})
    # padding with constant fill
    fills = (("omit", "", "0"), ("Null", ", Null", "0"), ("Full", ", Full", "1"),
             ("Bit0", ", Bit(False)", "0"), ("Bit1", ", fill=Bit(True)", "1"))
    for extra in (0, 1, 2, 3):
        for fname, ftxt, fch in fills:
            yield inst(f"leftpad/w={w}/to={w + extra}/fill={fname}", "leftpad", A, [("bv", w + extra)],
                       f"o0 <<= std.leftpad(a, {w + extra}{ftxt})", "pad",
                       {"w": w, "left": extra, "right": 0, "fill": fch})
            yield inst(f"rightpad/w={w}/to={w + extra}/fill={fname}", "rightpad", A, [("bv", w + extra)],
                       f"o0 <<= std.rightpad(a, {w + extra}{ftxt})", "pad",
                       {"w": w, "left": 0, "right": extra, "fill": fch})
    pfills = (("omit", "", "0"), ("Null", ", fill=Null", "0"), ("Full", ", fill=Full", "1"), ("Bit1", ", fill=Bit(True)", "1"))
    for left in (0, 1, 2):
        for right in (0, 1, 2):
            for fname, ftxt, fch in pfills:
                yield inst(f"pad/w={w}/left={left}/right={right}/fill={fname}", "pad", A, [("bv", w + left + right)],
                           f"o0 <<= std.pad(a, left={left}, right={right}{ftxt})", "pad",
                           {"w": w, "left": left, "right": right, "fill": fch})
    yield inst(f"pad/w={w}/left=omit/right=omit", "pad", A, [("bv", w)], "o0 <<= std.pad(a)", "pad",
               {"w": w, "left": 0, "right": 0, "fill": "0"})
    yield inst(f"pad/w={w}/left=2/right=omit", "pad", A, [("bv", w + 2)], "o0 <<= std.pad(a, left=2)", "pad",
               {"w": w, "left": 2, "right": 0, "fill": "0"})
    yield inst(f"pad/w={w}/left=omit/right=1/fill=Full", "pad", A, [("bv", w + 1)], "o0 <<= std.pad(a, right=1, fill=Full)", "pad",
               {"w": w, "left": 0, "right": 1, "fill": "1"})
    yield inst(f"pad/w={w}/positional", "pad", A, [("bv", w + 3)], "o0 <<= std.pad(a, 1, 2, Full)", "pad",
               {"w": w, "left": 1, "right": 2, "fill": "1"})
    # single-argument concat returns a new vector
    yield inst(f"concat/w={w}/args=a", "concat", A, [("bv", w)], "o0 <<= std.concat(a)", "concat",
               {"widths": {"a": w}, "order": ["a"]})
    # batched: slices starting with the least significant one
    for n in sorted(set(list(range(1, min(w, 4) + 1)) + [w])):
        nb = -(-w // n)
        partial = w % n != 0
        outs = []
        body = [f"r = std.batched(a, {n}{', allow_partial=True' if partial else ''})"]
        for i in range(nb):
            outs.append(("bv", min(n, w - i * n)))
            body.append(f"o{i} <<= r[{i}]")
        outs.append(("u", 5))
        body.append(f"o{nb} <<= Unsigned[5](len(r))")
        yield inst(f"batched/w={w}/n={n}", "batched", A, outs, body, "batched", {"w": w, "n": n})
        if not partial:
            for ap in ("True", "False"):
                body2 = [f"r = std.batched(a, {n}, allow_partial={ap})"] + body[1:]
                yield inst(f"batched/w={w}/n={n}/allow_partial={ap}", "batched", A, outs, body2, "batched", {"w": w, "n": n})
    # Mask.as_vector: apply(zeros, ones)
    yield inst(f"Mask.as_vector/w={w}/mask=a", "Mask", A, [("bv", w)], f"o0 <<= std.Mask(a).as_vector({w})",
               "apply_mask", {"w": w, "consts": {"vold": "0" * w, "vnew": "1" * w}, "ports": {"vmask": "a"}})
    # the helpers over the bits of a vector (a vector is an iterable of its bits, element 0 = lsb)
    for ch in "01":
        yield inst(f"count/bits/w={w}/value=Bit({ch})", "count", A, cnt, f"o0 <<= std.count(a, Bit({ch}))",
                   "count_bits_of", {"w": w, "how": "count", "ch": ch})
        yield inst(f"count_elements_while/bits/w={w}/val=Bit({ch})", "count_elements_while", A, cnt,
                   f"o0 <<= std.count_elements_while(a, Bit({ch}))", "count_bits_of", {"w": w, "how": "while", "ch": ch})
        yield inst(f"count_elements_until/bits/w={w}/val=Bit({ch})", "count_elements_until", A, cnt,
                   f"o0 <<= std.count_elements_until([*a], Bit({ch}))", "count_bits_of", {"w": w, "how": "until", "ch": ch})
        yield inst(f"count_elements_while/bits/w={w}/cond=eq{ch}", "count_elements_while", A, cnt,
                   f"o0 <<= std.count_elements_while(a, cond=lambda x: x == Bit({ch}))", "count_bits_of",
                   {"w": w, "how": "while", "ch": ch})
        yield inst(f"count_elements_until/bits/w={w}/cond=ne{1 - int(ch)}", "count_elements_until", A, cnt,
                   f"o0 <<= std.count_elements_until(a, cond=lambda x: x != Bit({1 - int(ch)}))", "count_bits_of",
                   {"w": w, "how": "until", "ch": ch})
    yield inst(f"count/bits/w={w}/check=bit", "count", A, cnt, "o0 <<= std.count([*a], check=lambda x: x)",
               "count_bits_of", {"w": w, "how": "count", "ch": "1"})


def fam_mask_const(w):
    """Mask(Null) / Mask(Full): all-zero / all-one mask"""
    A = [("a", "bv", w)]
    yield inst(f"Mask.as_vector/w={w}/mask=Null", "Mask", A, [("bv", w)], f"o0 <<= std.Mask(Null).as_vector({w})",
               "apply_mask", {"w": w, "consts": {"vold": "0" * w, "vnew": "1" * w, "vmask": "0" * w}})
    yield inst(f"Mask.as_vector/w={w}/mask=Full", "Mask", A, [("bv", w)], f"o0 <<= std.Mask(Full).as_vector({w})",
               "apply_mask", {"w": w, "consts": {"vold": "0" * w, "vnew": "1" * w, "vmask": "1" * w}})


# =============================================================================================
# run-time bit position
# =============================================================================================
def fam_bitpos(w, k):
    P = [("pos", "u", k)]
    yield inst(f"one_hot/w={w}/pos=Unsigned[{k}]", "one_hot", P, [("bv", w)], f"o0 <<= std.one_hot({w}, pos)",
               "one_hot", {"w": w}, valid="one_hot")


# =============================================================================================
# vector + fill vector + bit
# =============================================================================================
def fam_two(w, k):
    I = [("a", "bv", w), ("f", "bv", k), ("c", "bit", 1)]
    W = {"a": w, "f": k, "c": 1}
    yield inst(f"lshift_fill/w={w}/fill=BitVector[{k}]", "lshift_fill", I, [("bv", w)], "o0 <<= std.lshift_fill(a, f)",
               "lshift_fill", {"widths": W, "fill": "f"})
    yield inst(f"rshift_fill/w={w}/fill=BitVector[{k}]", "rshift_fill", I, [("bv", w)], "o0 <<= std.rshift_fill(a, f)",
               "rshift_fill", {"widths": W, "fill": "f"})
    yield inst(f"lshift_fill/w={w}/fill=Unsigned[{k}]/val=unsigned", "lshift_fill", I, [("bv", w)],
               "o0 <<= std.lshift_fill(a.unsigned, f.unsigned)", "lshift_fill", {"widths": W, "fill": "f"})
    yield inst(f"rshift_fill/w={w}/fill=Unsigned[{k}]/val=unsigned", "rshift_fill", I, [("bv", w)],
               "o0 <<= std.rshift_fill(a.unsigned, f.unsigned)", "rshift_fill", {"widths": W, "fill": "f"})
    for order in (("a", "f"), ("f", "a"), ("a", "c", "f"), ("f", "a", "c"), ("a", "f", "a", "f"),
                  ("a", "f", "c", "a", "f"), ("c", "f", "f", "a", "c", "f"), ("f", "c", "a", "f", "c", "a", "f")):
        tw = sum(W[n] for n in order)
        yield inst(f"concat/w={w}/k={k}/args={'-'.join(order)}", "concat", I, [("bv", tw)],
                   f"o0 <<= std.concat({', '.join(order)})", "concat", {"widths": W, "order": list(order)})
    if k == 1:
        yield inst(f"lshift_fill/w={w}/fill=Bit", "lshift_fill", I, [("bv", w)], "o0 <<= std.lshift_fill(a, c)",
                   "lshift_fill", {"widths": W, "fill": "c"})
        yield inst(f"rshift_fill/w={w}/fill=Bit", "rshift_fill", I, [("bv", w)], "o0 <<= std.rshift_fill(a, c)",
                   "rshift_fill", {"widths": W, "fill": "c"})
        for order in (("c",), ("a", "c"), ("c", "a"), ("c", "c", "c"), ("c", "a", "c", "a", "c")):
            tw = sum(W[n] for n in order)
            yield inst(f"concat/w={w}/args={'-'.join(order)}", "concat", I, [("bv", tw)],
                       f"o0 <<= std.concat({', '.join(order)})", "concat", {"widths": W, "order": list(order)})
        for extra in (1, 2, 3):
            yield inst(f"leftpad/w={w}/to={w + extra}/fill=port", "leftpad", I, [("bv", w + extra)],
                       f"o0 <<= std.leftpad(a, {w + extra}, c)", "pad", {"w": w, "left": extra, "right": 0, "fill": "c"})
            yield inst(f"rightpad/w={w}/to={w + extra}/fill=port", "rightpad", I, [("bv", w + extra)],
                       f"o0 <<= std.rightpad(a, {w + extra}, fill=c)", "pad", {"w": w, "left": 0, "right": extra, "fill": "c"})
        for left, right in ((1, 0), (0, 2), (2, 1), (3, 3)):
            yield inst(f"pad/w={w}/left={left}/right={right}/fill=port", "pad", I, [("bv", w + left + right)],
                       f"o0 <<= std.pad(a, {left}, {right}, c)", "pad", {"w": w, "left": left, "right": right, "fill": "c"})
        for t in (1, 2, 3, 4, 5, 7, 8):
            yield inst(f"repeat/Bit/w={w}/times={t}", "repeat", I, [("bv", t)], f"o0 <<= std.repeat(c, {t})", "repeat",
                       {"widths": W, "arg": "c", "times": t})
            yield inst(f"stretch/Bit/w={w}/factor={t}", "stretch", I, [("bv", t)], f"o0 <<= std.stretch(c, {t})", "stretch",
                       {"widths": W, "arg": "c", "factor": t})


# =============================================================================================
# old / new / mask
# =============================================================================================
def fam_mask(w):
    I = [("vold", "bv", w), ("vnew", "bv", w), ("vmask", "bv", w)]
    yield inst(f"apply_mask/w={w}", "apply_mask", I, [("bv", w)], "o0 <<= std.apply_mask(vold, vnew, vmask)", "apply_mask", {"w": w})
    yield inst(f"apply_mask/w={w}/args=unsigned", "apply_mask", I, [("bv", w)],
               "o0 <<= std.apply_mask(vold.unsigned, vnew.unsigned, vmask)", "apply_mask", {"w": w})
    yield inst(f"Mask.apply/w={w}/mask=port", "Mask", I, [("bv", w)], "o0 <<= std.Mask(vmask).apply(vold, vnew)", "apply_mask", {"w": w})
    yield inst(f"Mask.apply/w={w}/mask=Null", "Mask", I, [("bv", w)], "o0 <<= std.Mask(Null).apply(vold, vnew)", "apply_mask",
               {"w": w, "consts": {"vmask": "0" * w}})
    yield inst(f"Mask.apply/w={w}/mask=Full", "Mask", I, [("bv", w)], "o0 <<= std.Mask(Full).apply(vold, vnew)", "apply_mask",
               {"w": w, "consts": {"vmask": "1" * w}})


def fam_select_batch(n, b):
    I = [("a", "bv", n * b), ("sel", "bv", n)]
    yield inst(f"select_batch/n={n}/batch={b}", "select_batch", I, [("bv", b)], f"o0 <<= std.select_batch(a, sel, {b})",
               "select_batch", {"n": n, "b": b}, valid="select_batch")


# =============================================================================================
# clamp
# =============================================================================================
def fam_clamp_ports(w, kind):
    I = [("val", kind, w), ("low", kind, w), ("high", kind, w)]
    T = tname(kind, w)
    yield inst(f"clamp/{kind}{w}/bounds=ports", "clamp", I, [(kind, w)], "o0 <<= std.clamp(val, low, high)", "clamp",
               {"w": w, "kind": kind}, valid="clamp")
    yield inst(f"clamp/{kind}{w}/bounds=ports/kw", "clamp", I, [(kind, w)], "o0 <<= std.clamp(val, low=low, high=high)", "clamp",
               {"w": w, "kind": kind}, valid="clamp")
    # explicit cmp=: the range [low, high] and "less" / "greater" are meant w.r.t. cmp
    for cn in cmp_alternatives(kind, w):
        yield inst(f"clamp/{kind}{w}/bounds=ports/cmp={cn}", "clamp", I, [(kind, w)],
                   f"o0 <<= std.clamp(val, low, high, cmp={CMP_TEXT[cn]})", "clamp", {"w": w, "kind": kind, "cmp": cn}, valid="clamp")
    yield inst(f"clamp/{kind}{w}/bounds=ports/cmp=lt/positional", "clamp", I, [(kind, w)],
               f"o0 <<= std.clamp(val, low, high, {CMP_TEXT['lt']})", "clamp", {"w": w, "kind": kind, "cmp": "lt"}, valid="clamp")
    # compound operand: the order is the record's own __lt__ (default cmp) or a cmp= on its field
    yield inst(f"clamp/{kind}{w}/record/cmp=default", "clamp", I, [(kind, w)],
               f"o0 <<= std.clamp(Wrapped[{T}](val), Wrapped[{T}](low), Wrapped[{T}](high)).val", "clamp",
               {"w": w, "kind": kind}, valid="clamp")
    for cn, op in (("lt", "<"), ("gt", ">")):
        yield inst(f"clamp/{kind}{w}/record/cmp=field_{cn}", "clamp", I, [(kind, w)],
                   f"o0 <<= std.clamp(Wrapped[{T}](val), Wrapped[{T}](low), Wrapped[{T}](high), cmp=lambda p, q: p.val {op} q.val).val",
                   "clamp", {"w": w, "kind": kind, "cmp": cn}, valid="clamp")


def fam_clamp_narrow(w, kind):
    """bounds of a narrower type are converted to the type of val"""
    bw = w - 1
    I = [("val", kind, w), ("low", "u", bw), ("high", "u", bw)]
    P = {"w": w, "kind": kind, "bw": bw, "bkind": "u"}
    yield inst(f"clamp/{kind}{w}/bounds=Unsigned[{bw}]ports", "clamp", I, [(kind, w)], "o0 <<= std.clamp(val, low, high)", "clamp",
               P, valid="clamp")
    yield inst(f"clamp/{kind}{w}/bounds=Unsigned[{bw}]ports/cmp=gt", "clamp", I, [(kind, w)],
               f"o0 <<= std.clamp(val, low, high, cmp={CMP_TEXT['gt']})", "clamp", {**P, "cmp": "gt"}, valid="clamp")


def fam_clamp_const(w, kind):
    I = [("val", kind, w)]
    lo_t, hi_t = (0, (1 << w) - 1) if kind == "u" else (-(1 << (w - 1)), (1 << (w - 1)) - 1)
    if hi_t - lo_t + 1 > 8:
        pick = sorted(x for x in {lo_t, lo_t + 1, -1 if kind == "s" else lo_t + 2, 0, 1, hi_t // 2, hi_t - 1, hi_t}
                      if lo_t <= x <= hi_t)
    else:
        pick = list(range(lo_t, hi_t + 1))
    for lo in pick:
        for hi in pick:
            if lo <= hi:
                yield inst(f"clamp/{kind}{w}/low={lo}/high={hi}", "clamp", I, [(kind, w)], f"o0 <<= std.clamp(val, {lo}, {hi})",
                           "clamp", {"w": w, "kind": kind, "low": lo, "high": hi})
            if lo >= hi:
                yield inst(f"clamp/{kind}{w}/low={lo}/high={hi}/cmp=gt", "clamp", I, [(kind, w)],
                           f"o0 <<= std.clamp(val, {lo}, {hi}, cmp={CMP_TEXT['gt']})",
                           "clamp", {"w": w, "kind": kind, "low": lo, "high": hi, "cmp": "gt"})


# =============================================================================================
# lists
# =============================================================================================
def _names(n):
    return [f"x{i}" for i in range(n)]


def fam_list(n, w, kind):
    I = [(f"x{i}", kind, w) for i in range(n)]
    xs = "[" + ", ".join(_names(n)) + "]"
    tup = "(" + ", ".join(_names(n)) + ("," if n == 1 else "") + ")"
    star = ", ".join(_names(n))
    idx = [("u", ubits(n))]
    P = {"n": n, "w": w, "kind": kind}
    tag = f"{kind}{w}x{n}"
    for what, fn in (("min", "minimum"), ("max", "maximum")):
        yield inst(f"{fn}/{tag}/form=list", fn, I, [(kind, w)], f"o0 <<= std.{fn}({xs})", "extremum",
                   {**P, "what": what, "outs": ["value"]})
        yield inst(f"{fn}/{tag}/form=tuple", fn, I, [(kind, w)], f"o0 <<= std.{fn}({tup})", "extremum",
                   {**P, "what": what, "outs": ["value"]})
        if n >= 2:
            yield inst(f"{fn}/{tag}/form=args", fn, I, [(kind, w)], f"o0 <<= std.{fn}({star})", "extremum",
                       {**P, "what": what, "outs": ["value"]})
        e = f"{what}_element"
        yield inst(f"{e}/{tag}", e, I, idx + [(kind, w)], [f"r = std.{e}({xs})", "o0 <<= r[0]", "o1 <<= r[1]"], "extremum",
                   {**P, "what": what, "outs": ["index", "value"]})
        ix = f"{what}_index"
        yield inst(f"{ix}/{tag}", ix, I, idx, f"o0 <<= std.{ix}({tup})", "extremum", {**P, "what": what, "outs": ["index"]})
        # first extremum wins, observable through a tag carried next to equal keys
        tagged = "[" + ", ".join(f"(x{i}, Unsigned[3]({i}))" for i in range(n)) + "]"
        yield inst(f"{fn}/{tag}/tagged/key=first", fn, I, [(kind, w)] + idx,
                   [f"r = std.{fn}({tagged}, key=lambda p: p[0])", "o0 <<= r[0]", "o1 <<= r[1]"], "extremum",
                   {**P, "what": what, "outs": ["value", "index"]})
        # explicit cmp= argument (cmp(a, b): a is preferred to b), every alternative, every entry point
        for cn in cmp_alternatives(kind, w):
            ct = CMP_TEXT[cn]
            PC = {**P, "what": what, "cmp": cn}
            yield inst(f"{fn}/{tag}/cmp={cn}", fn, I, [(kind, w)], f"o0 <<= std.{fn}({xs}, cmp={ct})", "extremum",
                       {**PC, "outs": ["value"]})
            if n >= 2 and cn in ("gt", "slt", "ult"):
                yield inst(f"{fn}/{tag}/form=args/cmp={cn}", fn, I, [(kind, w)], f"o0 <<= std.{fn}({star}, cmp={ct})", "extremum",
                           {**PC, "outs": ["value"]})
            yield inst(f"{e}/{tag}/cmp={cn}", e, I, idx + [(kind, w)],
                       [f"r = std.{e}({xs}, cmp={ct})", "o0 <<= r[0]", "o1 <<= r[1]"], "extremum", {**PC, "outs": ["index", "value"]})
            yield inst(f"{ix}/{tag}/cmp={cn}", ix, I, idx, f"o0 <<= std.{ix}({xs}, cmp={ct})", "extremum", {**PC, "outs": ["index"]})
            # key= and cmp= together: the key extracts the compared field, cmp orders the keys
            yield inst(f"{fn}/{tag}/tagged/key=first/cmp={cn}", fn, I, [(kind, w)] + idx,
                       [f"r = std.{fn}({tagged}, key=lambda p: p[0], cmp={ct})", "o0 <<= r[0]", "o1 <<= r[1]"], "extremum",
                       {**PC, "outs": ["value", "index"]})
        # cmp= comparing one field of a compound element (no key=)
        for cn, op in (("lt", "<"), ("gt", ">")):
            yield inst(f"{fn}/{tag}/tagged/cmp=field_{cn}", fn, I, [(kind, w)] + idx,
                       [f"r = std.{fn}({tagged}, cmp=lambda p, q: p[0] {op} q[0])", "o0 <<= r[0]", "o1 <<= r[1]"], "extremum",
                       {**P, "what": what, "cmp": cn, "outs": ["value", "index"]})
            yield inst(f"{e}/{tag}/tagged/cmp=field_{cn}", e, I, idx + [(kind, w)],
                       [f"r = std.{e}({tagged}, cmp=lambda p, q: p[0] {op} q[0])", "o0 <<= r[0]", "o1 <<= r[1][0]"], "extremum",
                       {**P, "what": what, "cmp": cn, "outs": ["index", "value"]})
        if kind == "u" and w >= 2:
            # keys on which different elements tie: floor(x/2) and the two low bits
            keys = [("shr1", "lambda e: e >> 1")]
            if w >= 3:
                keys.append(("lsb2", "lambda e: e[1:0].unsigned"))
            for kname, ktxt in keys:
                yield inst(f"{fn}/{tag}/key={kname}", fn, I, [(kind, w)], f"o0 <<= std.{fn}({xs}, key={ktxt})", "extremum",
                           {**P, "what": what, "key": kname, "outs": ["value"]})
                yield inst(f"{e}/{tag}/key={kname}", e, I, idx + [(kind, w)],
                           [f"r = std.{e}({xs}, key={ktxt})", "o0 <<= r[0]", "o1 <<= r[1]"], "extremum",
                           {**P, "what": what, "key": kname, "outs": ["index", "value"]})
                yield inst(f"{ix}/{tag}/key={kname}", ix, I, idx, f"o0 <<= std.{ix}({xs}, key={ktxt})", "extremum",
                           {**P, "what": what, "key": kname, "outs": ["index"]})
    if kind == "s":
        return
    # count
    cnt = [("u", ubits(n))]
    mx = (1 << w) - 1
    for value in sorted({0, 1, mx}):
        yield inst(f"count/{tag}/value={value}", "count", I, cnt, f"o0 <<= std.count({xs}, Unsigned[{w}]({value}))", "count",
                   {**P, "how": "value_const", "value": value})
        for how in ("while", "until"):
            yield inst(f"count_elements_{how}/{tag}/val={value}", f"count_elements_{how}", I, cnt,
                       f"o0 <<= std.count_elements_{how}({xs}, Unsigned[{w}]({value}))", "count_elements",
                       {**P, "how": how, "cmp": "const", "value": value})
    yield inst(f"count/{tag}/check=bit0", "count", I, cnt, f"o0 <<= std.count({tup}, check=lambda e: e[0])", "count",
               {**P, "how": "bit0"})
    yield inst(f"count/{tag}/check=nonzero", "count", I, cnt, f"o0 <<= std.count({xs}, check=lambda e: e != 0)", "count",
               {**P, "how": "nonzero"})
    for how in ("while", "until"):
        yield inst(f"count_elements_{how}/{tag}/cond=bit0", f"count_elements_{how}", I, cnt,
                   f"o0 <<= std.count_elements_{how}({xs}, cond=lambda e: e[0] == Bit(True))", "count_elements",
                   {**P, "how": how, "cmp": "bit0"})
    # folds
    optxt = {
        "and": "lambda a, b: a & b", "or": "lambda a, b: a | b", "xor": "lambda a, b: a ^ b",
        "add": "lambda a, b: a + b", "sub": "lambda a, b: a - b",
        "min": "lambda a, b: a if a < b else b", "max": "lambda a, b: a if a > b else b",
        "left": "lambda a, b: a", "right": "lambda a, b: b", "concat": "lambda a, b: a @ b",
        "nimp": "lambda a, b: a & ~b",
    }
    for op in OPS:
        ow = n * w if op == "concat" else w
        okind = "bv" if op == "concat" else "u"
        out = [(okind, ow)]
        yield inst(f"binary_fold/{tag}/op={op}", "binary_fold", I, out, f"o0 <<= std.binary_fold({optxt[op]}, {xs})", "fold",
                   {**P, "op": op})
        yield inst(f"binary_fold/{tag}/op={op}/right_fold", "binary_fold", I, out,
                   f"o0 <<= std.binary_fold({optxt[op]}, {xs}, right_fold=True)", "fold", {**P, "op": op, "right": True})
        if op in ("sub", "concat"):
            yield inst(f"binary_fold/{tag}/op={op}/right_fold=False", "binary_fold", I, out,
                       f"o0 <<= std.binary_fold({optxt[op]}, {xs}, right_fold=False)", "fold", {**P, "op": op})
        if op in ASSOCIATIVE:
            for bs in (None, 1, 2, 3, 4):
                if bs in (1, 4) and op not in ("add", "concat", "left", "right"):
                    continue  # the extreme batch sizes: the order-sensitive operators and one arithmetic one
                arg = "" if bs is None else f", batch_size={bs}"
                yield inst(f"batched_fold/{tag}/op={op}/bs={bs}", "batched_fold", I, out,
                           f"o0 <<= std.batched_fold({optxt[op]}, {xs}{arg})", "fold", {**P, "op": op})


def fam_list_y(n, w):
    """list helpers compared with a run-time value"""
    I = [(f"x{i}", "u", w) for i in range(n)] + [("y", "u", w)]
    xs = "[" + ", ".join(_names(n)) + "]"
    cnt = [("u", ubits(n))]
    P = {"n": n, "w": w, "kind": "u"}
    tag = f"u{w}x{n}"
    yield inst(f"count/{tag}/value=port", "count", I, cnt, f"o0 <<= std.count({xs}, y)", "count", {**P, "how": "value_port"})
    yield inst(f"count/{tag}/value=port/kw", "count", I, cnt, f"o0 <<= std.count({xs}, value=y)", "count", {**P, "how": "value_port"})
    for how in ("while", "until"):
        yield inst(f"count_elements_{how}/{tag}/val=port", f"count_elements_{how}", I, cnt,
                   f"o0 <<= std.count_elements_{how}({xs}, y)", "count_elements", {**P, "how": how, "cmp": "port"})
        yield inst(f"count_elements_{how}/{tag}/cond=eqport", f"count_elements_{how}", I, cnt,
                   f"o0 <<= std.count_elements_{how}({xs}, cond=lambda e: e == y)", "count_elements", {**P, "how": how, "cmp": "port"})


# =============================================================================================
# choose_first / select / cond
# =============================================================================================
def fam_choose_const(k):
    I = [(f"c{i}", "bit", 1) for i in range(k)]
    vw = 3
    pairs = ", ".join(f"(c{i}, Unsigned[{vw}]({i + 1}))" for i in range(k))
    sep = ", " if k else ""
    P = {"k": k, "conds": "bits", "values": [i + 1 for i in range(k)], "default": 0}
    yield inst(f"choose_first/k={k}/values=const", "choose_first", I, [("u", vw)],
               f"o0 <<= std.choose_first({pairs}{sep}default=Unsigned[{vw}](0))", "choose_first", P)
    yield inst(f"choose_first/k={k}/values=const/typed", "choose_first", I, [("u", vw)],
               f"o0 <<= std.choose_first[Unsigned[{vw}]]({pairs}{sep}default=Unsigned[{vw}](0))", "choose_first", P)
    # conditions as boolean expressions instead of bits
    pairs_b = ", ".join(f"(c{i} == Bit(True), Unsigned[{vw}]({i + 1}))" for i in range(k))
    yield inst(f"choose_first/k={k}/values=const/conds=bool", "choose_first", I, [("u", vw)],
               f"o0 <<= std.choose_first({pairs_b}{sep}default=Unsigned[{vw}](0))", "choose_first", P)


def fam_choose_ports(k, w):
    I = [(f"c{i}", "bit", 1) for i in range(k)] + [(f"v{i}", "u", w) for i in range(k)] + [("d", "u", w)]
    pairs = ", ".join(f"(c{i}, v{i})" for i in range(k))
    P = {"k": k, "conds": "bits", "values": [f"v{i}" for i in range(k)], "default": "d"}
    yield inst(f"choose_first/k={k}/values=Unsigned[{w}]ports", "choose_first", I, [("u", w)],
               f"o0 <<= std.choose_first({pairs}, default=d)", "choose_first", P)


def fam_select_const(w, argkind):
    """select on x with constant results"""
    I = [("x", argkind, w)]
    vw = w + 1
    allkeys = list(range(1 << w))
    subsets = {"all": allkeys, "even": allkeys[::2], "last": allkeys[-1:], "first": allkeys[:1]}
    if w >= 2:
        subsets["odd_desc"] = allkeys[1::2][::-1]   # insertion order must not matter
    for sname, keys in subsets.items():
        res = {k: (3 * k + 1) % (1 << vw) for k in keys}
        default = (1 << vw) - 2
        P = {"w": w, "branches": [(k, res[k]) for k in keys], "default": default}
        forms = [("int", lambda k: str(k))]
        if argkind == "u":
            forms.append(("Unsigned", lambda k: f"Unsigned[{w}]({k})"))
        else:
            forms.append(("BitVector", lambda k: "BitVector[{}]('{}')".format(w, format(k, "0{}b".format(w)))))
        for fname, fk in forms:
            d = "{" + ", ".join(f"{fk(k)}: Unsigned[{vw}]({res[k]})" for k in keys) + "}"
            if sname == "all" and fname != "int":
                yield inst(f"select/x={argkind}{w}/keys={fname}/branches=all/default=omit", "select", I, [("u", vw)],
                           f"o0 <<= std.select(x, {d})", "select", P)
            if argkind == "bv" and fname == "int":
                continue  # integers are not BitVector literals
            if fname == "int" and sname not in ("all", "odd_desc"):
                continue  # integer keys: two branch sets are enough (one root cause at the Python level)
            yield inst(f"select/x={argkind}{w}/keys={fname}/branches={sname}", "select", I, [("u", vw)],
                       f"o0 <<= std.select(x, {d}, default=Unsigned[{vw}]({default}))", "select", P)
            if fname == "int":
                continue
            yield inst(f"select/x={argkind}{w}/keys={fname}/branches={sname}/typed", "select", I, [("u", vw)],
                       f"o0 <<= std.select[Unsigned[{vw}]](x, {d}, default=Unsigned[{vw}]({default}))", "select", P)


def fam_select_ports(w):
    """select on x with run-time results"""
    nk = min(1 << w, 3)
    I = [("x", "u", w)] + [(f"v{i}", "u", 2) for i in range(nk)] + [("d", "u", 2)]
    keys = list(range(1 << w))[-nk:]
    d = "{" + ", ".join(f"Unsigned[{w}]({k}): v{i}" for i, k in enumerate(keys)) + "}"
    P = {"w": w, "branches": [(k, f"v{i}") for i, k in enumerate(keys)], "default": "d"}
    yield inst(f"select/x=u{w}/keys=Unsigned/results=ports", "select", I, [("u", 2)], f"o0 <<= std.select(x, {d}, default=d)", "select", P)


def fam_cond(w):
    I = [("c", "bit", 1), ("a", "u", w), ("b", "u", w)]
    yield inst(f"cond/u{w}/cond=bit", "cond", I, [("u", w)], "o0 <<= std.cond(c, a, b)", "cond", {"cond": "bit"})
    yield inst(f"cond/u{w}/cond=bit/typed", "cond", I, [("u", w)], f"o0 <<= std.cond[Unsigned[{w}]](c, a, b)", "cond", {"cond": "bit"})
    yield inst(f"cond/u{w}/cond=eq", "cond", I, [("u", w)], "o0 <<= std.cond(a == b, a, b)", "cond", {"cond": "eq"})
    yield inst(f"cond/u{w}/cond=lt", "cond", I, [("u", w)], "o0 <<= std.cond[Unsigned](a < b, a, b)", "cond", {"cond": "lt"})


# =============================================================================================
# WIDE stratum: widths above the exhaustive bound with a structured value set
# =============================================================================================
def wide_values(w):
    """structured values of one wide operand: all-zero, all-ones, every one-hot, every one-cold,
    both alternating patterns, every pair of adjacent bits (and its complement)"""
    m = (1 << w) - 1
    alt = int(("01" * w)[:w], 2)
    vals = [0, m, alt, alt ^ m]
    for i in range(w):
        vals += [1 << i, m ^ (1 << i)]
    for i in range(w - 1):
        vals += [3 << i, m ^ (3 << i)]
    return sorted(set(vals))


def reduced_values(w, nbig=2):
    """reduced set used in cross products of several wide operands (incl. the signed / unsigned extremes)"""
    m = (1 << w) - 1
    alt = int(("01" * w)[:w], 2)
    msb = 1 << (w - 1)
    if nbig >= 3:
        return sorted({0, 1, m, msb, m ^ msb})
    return sorted({0, 1, 3, m, msb, m ^ msb, alt, alt ^ m})


SMALL_PORT = 7   # ports up to this width keep their full range inside the wide stratum


def port_values(ins, mode):
    """list of value lists, one per port"""
    if mode != "wide":
        return [range(1 << w) for _, _, w in ins]
    big = [w for _, _, w in ins if w > SMALL_PORT]
    out = []
    for _, _, w in ins:
        if w <= SMALL_PORT:
            out.append(range(1 << w))
        elif len(big) == 1:
            out.append(wide_values(w))
        else:
            out.append(reduced_values(w, len(big)))
    return out


def n_valuations(ins, mode):
    n = 1
    for vs in port_values(ins, mode):
        n *= len(vs)
    return n


def fam_select_sparse(w):
    """select on a wide selector with a few keys"""
    I = [("x", "u", w)]
    m = (1 << w) - 1
    keys = [0, 1, 1 << (w - 1), m]
    res = {k: i + 1 for i, k in enumerate(keys)}
    P = {"w": w, "branches": [(k, res[k]) for k in keys], "default": 7}
    for fname, fk in (("int", str), ("Unsigned", lambda k: f"Unsigned[{w}]({k})")):
        d = "{" + ", ".join(f"{fk(k)}: Unsigned[3]({res[k]})" for k in keys) + "}"
        yield inst(f"select/x=u{w}/keys={fname}/branches=sparse", "select", I, [("u", 3)],
                   f"o0 <<= std.select(x, {d}, default=Unsigned[3](7))", "select", P)


def _wide_keep(it, w):
    """parameter alternatives kept in the wide stratum (every helper stays, the per-width parameter sweeps
    are thinned to values around the 8/16/32/64 thresholds and the ends)"""
    h, p, k = it["helper"], it["p"], it["key"]
    edge = {0, 1, 7, 8, 9, 15, 16, 17, 31, 32, 33, 63, 64, w - 1, w}
    if h in ("rol", "ror"):
        return k.endswith("default") or p["n"] in edge
    if h == "one_hot" and "pos" in p:
        return p["pos"] in edge
    if h in ("leftpad", "rightpad"):
        return "fill=omit" in k or "fill=Full" in k or "fill=port" in k
    if h == "pad":
        return ("fill=omit" in k and p["left"] != p["right"]) or "fill=port" in k or "positional" in k
    if h in ("repeat", "stretch"):
        return p.get("times", p.get("factor")) in (1, 2, 3)
    if h == "batched":
        return p["n"] in (3, 4, w) and "allow_partial" not in k
    if h == "clamp" and "low" in p:
        return p["low"] in (0, 1, -1) or "cmp=gt" in k
    if h in ("minimum", "maximum", "min_element", "max_element", "min_index", "max_index"):
        if "cmp=" in k:
            return any(t in k for t in ("cmp=gt", "cmp=slt", "cmp=ult")) and "form=args" not in k
        return True
    if h == "batched_fold":
        return p["op"] in ("add", "xor", "min", "concat", "left") and ("bs=None" in k or "bs=2" in k or "bs=3" in k)
    if h == "binary_fold":
        return p["op"] in ("add", "sub", "or", "max", "concat", "right")
    return True


def _thin(items, per_helper):
    """at most per_helper instances of each helper: first, middle, last of the generation order"""
    by = {}
    for it in items:
        by.setdefault(it["helper"], []).append(it)
    keep = []
    for h, L in by.items():
        idx = sorted({0, len(L) // 2, len(L) - 1}) if per_helper >= 3 else sorted({0, len(L) - 1})[:per_helper]
        keep += [L[i] for i in idx[:per_helper]]
    return keep


def wide_instances(widths, per_helper=None):
    """per_helper: None = every kept parameter alternative; k = at most k instances per helper and width
    (dict width -> k allowed)"""
    out = []
    for w in widths:
        start = len(out)
        fams = [fam_unary(w), fam_mask_const(w), fam_bitpos(w, (w - 1).bit_length()), fam_mask(w), fam_cond(w),
                fam_select_sparse(w), fam_list(3, w, "u"), fam_list(3, w, "s"), fam_list_y(2, w),
                fam_choose_ports(2, w), fam_clamp_narrow(w, "u")]
        for k in sorted({1, 9, w}):
            if k <= w:
                fams.append(fam_two(w, k))
        for kind in "us":
            fams += [fam_clamp_ports(w, kind), fam_clamp_const(w, kind)]
        for n, b in ((1, w), (3, w // 3), (4, w // 4)):
            if n * b == w and b >= 1:
                fams.append(fam_select_batch(n, b))
        for fam in fams:
            for it in fam:
                if _wide_keep(it, w):
                    it["key"] = "wide/" + it["key"]
                    it["vals"] = "wide"
                    out.append(it)
        k = per_helper.get(w) if isinstance(per_helper, dict) else per_helper
        if k:
            out[start:] = _thin(out[start:], k)
    return out


# =============================================================================================
# the bounded family per tier
# =============================================================================================
def total_bits(i):
    return sum(w for _, _, w in i["ins"])


def instances(thorough: bool):
    """All instances of the tier.  `cap` bounds the total number of input bits of multi-operand shapes
    (every input valuation is enumerated, so the cost is 2**bits per instance)."""
    W1 = range(1, 10) if thorough else range(1, 7)      # single operand widths
    cap = 16 if thorough else 12
    out = []
    for w in W1:
        out.extend(fam_unary(w))
        out.extend(fam_mask_const(w))
        for k in sorted({max(1, (w - 1).bit_length()), max(1, (w - 1).bit_length()) + 1}):
            out.extend(fam_bitpos(w, k))
    for w in W1:
        for k in range(1, w + 1):
            if w + k + 1 <= cap:
                out.extend(fam_two(w, k))
    for w in W1:
        if 3 * w <= cap:
            out.extend(fam_mask(w))
            for kind in "us":
                if not (kind == "s" and w < 2):
                    out.extend(fam_clamp_ports(w, kind))
                if w >= 2:
                    out.extend(fam_clamp_narrow(w, kind))
        for kind in "us":
            if not (kind == "s" and w < 2):
                out.extend(fam_clamp_const(w, kind))
    for n in range(1, 5):
        for b in range(1, 5):
            if n * b + n <= cap:
                out.extend(fam_select_batch(n, b))
    for n in range(1, 6):
        for w in W1:
            if n * w <= cap:
                out.extend(fam_list(n, w, "u"))
                if w >= 2:
                    out.extend(fam_list(n, w, "s"))
            if n * w + w <= cap:
                out.extend(fam_list_y(n, w))
    for k in range(0, 6):
        out.extend(fam_choose_const(k))
    for k in range(1, 5):
        for w in (1, 2, 3):
            if k + (k + 1) * w <= cap:
                out.extend(fam_choose_ports(k, w))
    for w in range(1, 5 if thorough else 4):
        out.extend(fam_select_const(w, "u"))
        out.extend(fam_select_const(w, "bv"))
        out.extend(fam_select_ports(w))
    for w in W1:
        if 2 * w + 1 <= cap:
            out.extend(fam_cond(w))
    # WIDE stratum: one width just above each usual implementation threshold (8/16/32/64) + the thresholds
    # (quick: every helper with 3 parameter alternatives at 9 bits, 2 at 17 and 33 bits, 1 at 65 bits;
    # thorough: all kept alternatives at all eight widths)
    if thorough:
        out.extend(wide_instances((9, 12, 16, 17, 32, 33, 64, 65)))
    else:
        out.extend(wide_instances((9, 17, 33, 65), {9: 3, 17: 2, 33: 2, 65: 1}))
    keys = set()
    for i in out:
        assert i["key"] not in keys, i["key"]
        keys.add(i["key"])
    return out

"""C10 family `cls`: classes, inheritance, super(), properties, __call__, class/static methods, isinstance/type.

Hierarchies: chain (A; B(A); C(B)), diamond (A; B(A); C(A); D(B, C)), twobase (A; B; C(A, B)).
mro     method m in every class: '-' absent | 'P' returns [name] | 'S' returns [name, *super().m()]; called on an
        instance of every class (CPython AttributeError when no m is reachable: no claim).
init    __init__ in every class: '-' | 'P' sets self.<name> = v | 'S' super().__init__(v + 1) first; the instance is
        returned and compared by its attribute dict.
attr    class attribute k defined in any subset of the diamond's classes (+ optionally on the instance); read through
        the instance and through the class.
kinds   instance method / classmethod / staticmethod / __call__ / property defined in A, optionally overridden in
        B(A) with or without super(); reached through instance, class, subclass instance, subclass.
prop    property getter/setter combinations.
isa     isinstance / type() is / issubclass matrices over the diamond, tuple and union class arguments.
dunder  __getitem__ with index / slice / tuple keys, __len__, __contains__ (rejected), user __eq__ used by ==.
ctor    constructor calls: class kinds = __new__ in {absent, (cls, v, scale=1), (cls, *a, **k), inherited} x __init__ in
        {absent, (self, v, scale=1), (self), (self, *a, **k), inherited}; every call shape in CTOR_SHAPES (positional,
        keyword, * and ** spreads, too many, wrong keyword).  Where CPython raises an argument-binding TypeError
        ("takes no arguments", missing / unexpected / multiple values) cohdl must reject; otherwise the instances are
        compared by class name and attribute dict.
value   bound methods, functions and classes as first-class values.
"""
from __future__ import annotations

import itertools

from .c10_common import case

HIER = {
    "chain": (("A", ()), ("B", ("A",)), ("C", ("B",))),
    "diamond": (("A", ()), ("B", ("A",)), ("C", ("A",)), ("D", ("B", "C"))),
    "twobase": (("A", ()), ("B", ()), ("C", ("A", "B"))),
}


def _head(name, bases):
    if bases:
        return f"class {name}__S__({', '.join(b + '__S__' for b in bases)}):\n"
    return f"class {name}__S__:\n"


def mro_cases():
    for hname, classes in HIER.items():
        for specs in itertools.product("-PS", repeat=len(classes)):
            defs = ""
            for (name, bases), sp in zip(classes, specs):
                body = "    tag = '%s'\n" % name
                if sp == "P":
                    body += f"    def m(self, x):\n        return ['{name}', x]\n"
                elif sp == "S":
                    body += f"    def m(self, x):\n        return ['{name}', *super().m(x + 1)]\n"
                defs += _head(name, bases) + body
            for name, _ in classes:
                yield case(f"cls/mro/{hname}/{''.join(specs)}/on{name}",
                           defs + f"def case__S__():\n    return {name}__S__().m(0)\n", "case__S__()")


def init_cases():
    for hname, classes in HIER.items():
        for specs in itertools.product("-PS", repeat=len(classes)):
            defs = ""
            for (name, bases), sp in zip(classes, specs):
                body = "    tag = '%s'\n" % name
                if sp == "P":
                    body += f"    def __init__(self, v):\n        self.{name.lower()} = v\n"
                elif sp == "S":
                    body += f"    def __init__(self, v):\n        super().__init__(v + 1)\n        self.{name.lower()} = v\n"
                defs += _head(name, bases) + body
            for name, _ in classes:
                yield case(f"cls/init/{hname}/{''.join(specs)}/on{name}",
                           defs + f"def case__S__():\n    return {name}__S__(0)\n", "case__S__()")


def attr_cases():
    classes = HIER["diamond"]
    for specs in itertools.product("-K", repeat=4):
        for inst in ("-", "I"):
            defs = ""
            for (name, bases), sp in zip(classes, specs):
                body = f"    k = 'k{name}'\n" if sp == "K" else ""
                if name == "A":
                    body += "    def __init__(self):\n" + ("        self.k = 'inst'\n" if inst == "I" else "        self.other = 0\n")
                defs += _head(name, bases) + (body or "    pass\n")
            for name, _ in classes:
                yield case(f"cls/attr/{''.join(specs)}/{inst}/inst{name}",
                           defs + f"def case__S__():\n    return {name}__S__().k\n", "case__S__()")
                yield case(f"cls/attr/{''.join(specs)}/{inst}/cls{name}",
                           defs + f"def case__S__():\n    return {name}__S__.k\n", "case__S__()")


KINDS = {
    # kind: (decorator, first parameter, how the result names its receiver)
    "inst": ("", "self", "self.t"),
    "classm": ("    @classmethod\n", "cls", "cls.t"),
    "static": ("    @staticmethod\n", None, "'s'"),
}


def kind_cases():
    for kind, (deco, first, recv) in KINDS.items():
        for over in ("-", "P", "S"):
            params = f"{first}, x" if first else "x"
            a = f"class A__S__:\n    t = 'tA'\n{deco}    def m({params}):\n        return ('A.m', {recv}, x)\n"
            b = "class B__S__(A__S__):\n    t = 'tB'\n"
            if over == "P":
                b += f"{deco}    def m({params}):\n        return ('B.m', {recv}, x)\n"
            elif over == "S":
                b += f"{deco}    def m({params}):\n        return ('B.m', super().m(x + 1))\n"
            for via, expr in (("instA", "A__S__().m(1)"), ("instB", "B__S__().m(1)"), ("clsA", "A__S__.m(1)"), ("clsB", "B__S__.m(1)"),
                              ("unboundA", "A__S__.m(A__S__(), 1)"), ("unboundAB", "A__S__.m(B__S__(), 1)"),
                              ("kw", "B__S__().m(x=1)"), ("star", "B__S__().m(*[1])")):
                yield case(f"cls/kind/{kind}/{over}/{via}", a + b + f"def case__S__():\n    return {expr}\n", "case__S__()")
    # __call__
    for over in ("-", "P", "S"):
        a = "class A__S__:\n    def __init__(self, t):\n        self.t = t\n    def __call__(self, x, y=5):\n        return ('A.call', self.t, x, y)\n"
        b = "class B__S__(A__S__):\n"
        if over == "-":
            b += "    pass\n"
        elif over == "P":
            b += "    def __call__(self, x, y=6):\n        return ('B.call', self.t, x, y)\n"
        else:
            b += "    def __call__(self, x, y=6):\n        return ('B.call', super().__call__(x, y))\n"
        for via, expr in (("A", "A__S__('a')(1)"), ("B", "B__S__('b')(1)"), ("Bkw", "B__S__('b')(1, y=2)"), ("Bstar", "B__S__('b')(*(1, 2))"),
                          ("explicit", "B__S__('b').__call__(1)"), ("viaclass", "A__S__.__call__(B__S__('b'), 1)")):
            yield case(f"cls/call/{over}/{via}", a + b + f"def case__S__():\n    return {expr}\n", "case__S__()")


def prop_cases():
    for getter_b in ("-", "P", "S"):
        for setter in ("-", "A"):
            a = "class A__S__:\n    def __init__(self, v):\n        self._v = v\n    @property\n    def p(self):\n        return ('A.p', self._v)\n"
            if setter == "A":
                a += "    @p.setter\n    def p(self, x):\n        self._w = x\n"
            b = "class B__S__(A__S__):\n"
            if getter_b == "-":
                b += "    pass\n"
            elif getter_b == "P":
                b += "    @property\n    def p(self):\n        return ('B.p', self._v)\n"
            else:
                b += "    @property\n    def p(self):\n        return ('B.p', super().p)\n"
            for via, body in (
                ("getA", "    return A__S__(1).p\n"),
                ("getB", "    return B__S__(1).p\n"),
                ("setA", "    o = A__S__(1)\n    o.p = 7\n    return o\n"),
                ("setB", "    o = B__S__(1)\n    o.p = 7\n    return o\n"),
                ("clsattr", "    return type(A__S__.p) is property\n"),
            ):
                yield case(f"cls/prop/{getter_b}/{setter}/{via}", a + b + f"def case__S__():\n{body}", "case__S__()")


def isa_cases():
    classes = HIER["diamond"]
    defs = "".join(_head(n, b) + "    pass\n" for n, b in classes) + "class U__S__:\n    pass\n"
    names = [n for n, _ in classes] + ["U"]
    for x in names:
        for y in names:
            yield case(f"cls/isa/isinstance/{x}/{y}", defs + f"def case__S__():\n    return isinstance({x}__S__(), {y}__S__)\n", "case__S__()")
            yield case(f"cls/isa/typeis/{x}/{y}", defs + f"def case__S__():\n    return type({x}__S__()) is {y}__S__\n", "case__S__()")
            yield case(f"cls/isa/typeeq/{x}/{y}", defs + f"def case__S__():\n    return type({x}__S__()) == {y}__S__\n", "case__S__()")
            yield case(f"cls/isa/issubclass/{x}/{y}", defs + f"def case__S__():\n    return issubclass({x}__S__, {y}__S__)\n", "case__S__()")
            yield case(f"cls/isa/tuple/{x}/{y}", defs + f"def case__S__():\n    return isinstance({x}__S__(), ({y}__S__, U__S__))\n", "case__S__()")
            yield case(f"cls/isa/union/{x}/{y}", defs + f"def case__S__():\n    return isinstance({x}__S__(), {y}__S__ | int)\n", "case__S__()")
        yield case(f"cls/isa/object/{x}", defs + f"def case__S__():\n    return isinstance({x}__S__(), object)\n", "case__S__()")
        yield case(f"cls/isa/typename/{x}", defs + f"def case__S__():\n    return type({x}__S__()).__name__\n", "case__S__()")
        yield case(f"cls/isa/mrolen/{x}", defs + f"def case__S__():\n    return len({x}__S__.__mro__)\n", "case__S__()")
    for v, vn in (("1", "int"), ("True", "bool"), ("'a'", "str"), ("None", "none"), ("(1,)", "tuple"), ("[1]", "list"), ("{'a': 1}", "dict"), ("1.5", "float")):
        for t in ("int", "bool", "str", "tuple", "list", "dict", "float", "object", "type(None)", "(int, str)", "int | None"):
            yield case(f"cls/isa/builtin/{vn}/{t}", f"def case__S__(x):\n    return isinstance(x, {t})\n", f"case__S__({v})")
        yield case(f"cls/isa/builtintype/{vn}", "def case__S__(x):\n    return type(x)\n", f"case__S__({v})")


def dunder_cases():
    a = ("class A__S__:\n    def __init__(self, v):\n        self.v = v\n    def __getitem__(self, k):\n        return ('gi', self.v, k)\n"
         "    def __len__(self):\n        return self.v\n    def __contains__(self, x):\n        return x == self.v\n"
         "    def __eq__(self, o):\n        return isinstance(o, A__S__) and self.v == o.v\n    def __iter__(self):\n        return iter([self.v, self.v + 1])\n")
    b = "class B__S__(A__S__):\n    def __getitem__(self, k):\n        return ('B', super().__getitem__(k))\n"
    exprs = {
        "idx": "A__S__(3)[1]", "neg": "A__S__(3)[-1]", "slice": "A__S__(3)[1:2]", "slice3": "A__S__(3)[::2]", "tuplekey": "A__S__(3)[1, 2]",
        "strkey": "A__S__(3)['k']", "sub": "B__S__(3)[0]", "subslice": "B__S__(3)[:1]", "len": "len(A__S__(3))", "len0": "len(B__S__(0))",
        "in": "3 in A__S__(3)", "notin": "4 not in A__S__(3)", "eq": "A__S__(3) == A__S__(3)", "eqsub": "A__S__(3) == B__S__(3)", "ne": "A__S__(3) != A__S__(4)",
        "eqint": "A__S__(3) == 3", "iter": "[x for x in A__S__(3)]", "unpack": "[*A__S__(3)]", "listof": "list(A__S__(3))",
        "explicit": "A__S__(3).__getitem__(2)", "clsget": "A__S__.__len__(A__S__(4))",
    }
    for k, e in exprs.items():
        yield case(f"cls/dunder/{k}", a + b + f"def case__S__():\n    return {e}\n", "case__S__()")


def value_cases():
    a = ("class A__S__:\n    k = 3\n    def __init__(self, v):\n        self.v = v\n    def m(self, x=1):\n        return (self.v, x)\n"
         "    def twice(self, f):\n        return f(f(self.v))\n    def mk(self):\n        return lambda x: x + self.v\n"
         "    def chain(self):\n        return A__S__(self.v + 1)\n")
    b = "def inc__S__(x):\n    return x + 1\n"
    progs = {
        "boundvar": "    o = A__S__(2)\n    f = o.m\n    return f(5)\n",
        "boundlist": "    fs = [A__S__(1).m, A__S__(2).m]\n    return [f() for f in fs]\n",
        "funcarg": "    return A__S__(2).twice(inc__S__)\n",
        "lambdaarg": "    return A__S__(2).twice(lambda x: x * 3)\n",
        "methodarg": "    o = A__S__(2)\n    return o.twice(A__S__(5).mk())\n",
        "clsvar": "    c = A__S__\n    return c(4).m()\n",
        "clsinlist": "    return [c(1).v for c in (A__S__, A__S__)]\n",
        "chain": "    return A__S__(1).chain().chain().v\n",
        "attrofattr": "    o = A__S__(A__S__(9))\n    return o.v.v\n",
        "clsattr_via_inst": "    return A__S__(0).k + A__S__.k\n",
        "getattr": "    return getattr(A__S__(6), 'v')\n",
        "hasattr": "    return (hasattr(A__S__(6), 'v'), hasattr(A__S__(6), 'zz'), hasattr(A__S__, 'm'))\n",
        "selfret": "    o = A__S__(1)\n    return o.m is not None\n",
        "tuple_of_objs": "    return (A__S__(1), [A__S__(2)])\n",
        "dictval": "    d = {'a': A__S__(1), 'b': A__S__(2)}\n    return d['b'].m(3)\n",
    }
    for k, p in progs.items():
        yield case(f"cls/value/{k}", a + b + f"def case__S__():\n{p}", "case__S__()")


NEW_KINDS = {
    "-": "",
    "S1": "    def __new__(cls, v, scale=1):\n        return object.__new__(cls)\n",
    "Sv": "    def __new__(cls, *a, **k):\n        return object.__new__(cls)\n",
}
INIT_KINDS = {
    "-": "",
    "S1": "    def __init__(self, v, scale=1):\n        self.r = v * scale\n",
    "S0": "    def __init__(self):\n        self.r = 'none'\n",
    "Sv": "    def __init__(self, *a, **k):\n        self.r = (a, k)\n",
}
CTOR_SHAPES = {
    "none": "", "p1": "3", "p2": "3, 2", "p1k": "3, scale=2", "k1": "v=3", "k2": "v=3, scale=2", "s1": "*[3]", "s2": "*[3, 2]",
    "d1": "**{'v': 3}", "p1d": "3, **{'scale': 2}", "p3": "3, 2, 1", "wrongkw": "3, z=9", "onlyscale": "scale=2",
}


def ctor_cases():
    for nk in ("-", "S1", "Sv", "inhS1"):
        for ik in ("-", "S1", "S0", "Sv", "inhS1"):
            base = "class P__S__:\n    tag = 'P'\n"
            if nk == "inhS1":
                base += NEW_KINDS["S1"]
            if ik == "inhS1":
                base += INIT_KINDS["S1"]
            body = NEW_KINDS.get(nk, "") + INIT_KINDS.get(ik, "")
            cls = "class K__S__(P__S__):\n    tag = 'K'\n" + body
            for sk, args in CTOR_SHAPES.items():
                yield case(f"cls/ctor/new{nk}/init{ik}/{sk}", base + cls + f"def case__S__():\n    return K__S__({args})\n",
                           "case__S__()", binding=True)
                # the object is used, not only created
                yield case(f"cls/ctor_use/new{nk}/init{ik}/{sk}", base + cls + f"def case__S__():\n    return K__S__({args}).tag\n",
                           "case__S__()", binding=True)


def cases(thorough):
    yield from mro_cases()
    yield from init_cases()
    yield from attr_cases()
    yield from kind_cases()
    yield from prop_cases()
    yield from isa_cases()
    yield from dunder_cases()
    yield from value_cases()
    yield from ctor_cases()


STRIPES = 4


def tasks(thorough, seed):
    return [("cls", thorough, i) for i in range(STRIPES)]


def expand(desc):
    _, thorough, i = desc
    return itertools.islice(cases(thorough), i, None, STRIPES)

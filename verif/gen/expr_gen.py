"""Bounded-exhaustive generator of well-typed CoHDL expression trees (shared by C02 and C09) and their rendering
as CoHDL source.  Node format and typing: see verif/ref/values.py.

depth1(widths, mixed)  -- every operator of the alphabet applied to leaf operands (input ports / int literals)
depth2(widths)         -- every operator applied to operands of which at least one is a depth-1 tree of a reduced
                          operator set (complete for the given widths)
"""
from __future__ import annotations

import itertools

from ..ref import values as V
from ..ref.values import BIT, BOOL, INT, bv, u, s, IllTyped

ARITH_SYMS = {"add": "+", "sub": "-", "mul": "*", "fdiv": "//", "mod": "%", "and": "&", "or": "|", "xor": "^",
              "cat": "@", "shl": "<<", "shr": ">>"}
CMP_SYMS = {"eq": "==", "ne": "!=", "lt": "<", "le": "<=", "gt": ">", "ge": ">="}


def int_literals(w):
    """the literal alphabet for an operand next to a vector of width w"""
    return sorted({-2, -1, 0, 1, 2, 3, (1 << w) - 1, 1 << w})


def well_typed(node):
    try:
        V.typeof(node)
        V.leaves(node)
        return True
    except IllTyped:
        return False


def renumber(node):
    """give the operands slot numbers 0.. in left-to-right order (every leaf occurrence = its own operand)"""
    cnt = itertools.count()

    def go(n):
        if isinstance(n, tuple):
            if n and n[0] == "in":
                return ("in", n[1], next(cnt))
            if n and n[0] in ("lit", "const", "bound", "null", "full"):
                return n
            return tuple(go(x) for x in n)
        return n

    return go(node)


def L(t):
    return ("in", t, 0)


def lit(k):
    return ("lit", k)


# ---------------------------------------------------------------------------------------------
# enumeration
# ---------------------------------------------------------------------------------------------
def vec_types(widths):
    for w in widths:
        yield bv(w)
        yield u(w)
        yield s(w)


def width_pairs(widths, mixed):
    for w1 in widths:
        for w2 in widths:
            if mixed or w1 == w2:
                yield w1, w2


def apply_ops(operand_sets, widths, mixed=True, with_literals=True, families=None, const_variants=False):
    """All applications of one operator of the alphabet to operands drawn from `operand_sets`:
    a function type -> list of candidate operand trees of that type.  Yields (family, tree) (not renumbered)."""

    def want(f):
        return families is None or f in families

    ops_of = operand_sets
    num_types = [k(w) for k in (u, s) for w in widths]

    # ---- arithmetic, comparisons: vector op vector
    for kind in (u, s):
        for w1, w2 in width_pairs(widths, mixed):
            for a in ops_of(kind(w1)):
                for b in ops_of(kind(w2)):
                    if want("arith"):
                        for op in V.ARITH:
                            yield "arith", ("bin", op, a, b)
                    if want("cmp"):
                        for op in V.CMP:
                            yield "cmp", ("cmp", (op,), (a, b))
    # ---- vector op literal, literal op vector
    if with_literals:
        for t in num_types:
            for a in ops_of(t):
                for k in int_literals(t[1]):
                    if want("arith_lit"):
                        for op in V.ARITH:
                            yield "arith_lit", ("bin", op, a, lit(k))
                            yield "arith_lit", ("bin", op, lit(k), a)
                    if want("cmp_lit"):
                        for op in V.CMP:
                            yield "cmp_lit", ("cmp", (op,), (a, lit(k)))
                            yield "cmp_lit", ("cmp", (op,), (lit(k), a))
    # ---- Integer operands (run-time)
    if want("integer"):
        for a in ops_of(INT):
            for b in ops_of(INT):
                for op in V.ARITH:
                    yield "integer", ("bin", op, a, b)
                for op in V.CMP:
                    yield "integer", ("cmp", (op,), (a, b))
            for op in ("add", "mul", "tdiv", "mod", "lt", "eq"):
                for k in (-2, 3):
                    if op in V.ARITH:
                        yield "integer", ("bin", op, a, lit(k))
                        yield "integer", ("bin", op, lit(k), a)
                    else:
                        yield "integer", ("cmp", (op,), (a, lit(k)))
            yield "integer", ("un", "neg", a)
            for t in num_types:
                for b in ops_of(t):
                    for op in ("add", "sub", "mul", "tdiv", "mod", "rem"):
                        yield "integer", ("bin", op, b, a)
                        yield "integer", ("bin", op, a, b)
                    for op in ("lt", "ge", "eq"):
                        yield "integer", ("cmp", (op,), (b, a))
                        yield "integer", ("cmp", (op,), (a, b))
    # ---- equality on bit / bool / bv / enum
    if want("eq"):
        for t in [BIT, BOOL, ("enum", 3)] + [bv(w) for w in widths]:
            for a in ops_of(t):
                for b in ops_of(t):
                    for op in ("eq", "ne"):
                        yield "eq", ("cmp", (op,), (a, b))
    # ---- bitwise
    if want("bitwise"):
        for t in [BIT] + list(vec_types(widths)):
            for a in ops_of(t):
                for b in ops_of(t):
                    for op in V.BITWISE:
                        yield "bitwise", ("bin", op, a, b)
    # ---- concatenation
    if want("cat"):
        cat_types = [BIT] + list(vec_types(widths))
        for t1 in cat_types:
            for t2 in cat_types:
                if not mixed and V.width(t1) != V.width(t2) and BIT not in (t1, t2):
                    continue
                for a in ops_of(t1):
                    for b in ops_of(t2):
                        yield "cat", ("bin", "cat", a, b)
    # ---- shifts
    if want("shift"):
        for t in num_types:
            for a in ops_of(t):
                for w2 in widths:
                    if not mixed and w2 != t[1]:
                        continue
                    for b in ops_of(u(w2)):
                        for op in ("shl", "shr"):
                            yield "shift", ("bin", op, a, b)
                if with_literals:
                    for k in int_literals(t[1]):
                        if k >= 0:
                            for op in ("shl", "shr"):
                                yield "shift", ("bin", op, a, lit(k))
                for b in ops_of(INT):
                    for op in ("shl", "shr"):
                        yield "shift", ("bin", op, a, b)
    # ---- unary
    if want("unary"):
        for t in [BIT, BOOL] + list(vec_types(widths)):
            for a in ops_of(t):
                for op in ("inv", "neg", "abs", "not"):
                    yield "unary", ("un", op, a)
                yield "unary", ("tobool", a)
                if V.is_vec(t):
                    yield "unary", ("anyvec", "any", a)
                    yield "unary", ("anyvec", "all", a)
    # ---- index / slice / part select / views / resize
    if want("index"):
        for t in vec_types(widths):
            w = t[1]
            for a in ops_of(t):
                for i in range(w):
                    yield "index", ("idx", a, i)
                for hi in range(w):
                    for lo in range(hi + 1):
                        yield "index", ("slice", a, hi, lo)
                for fn in ("msb", "lsb"):
                    yield "index", ("part", fn, a, None, None)
                    for n in range(1, w + 1):
                        yield "index", ("part", fn, a, n, None)
                    for r in range(0, w):
                        yield "index", ("part", fn, a, None, r)
                for w2 in widths:
                    if not mixed and w2 != w:
                        continue
                    for it in (u(w2), s(w2)):
                        for b in ops_of(it):
                            yield "index", ("idxrt", a, b)
                for b in ops_of(INT):
                    yield "index", ("idxrt", a, b)
    if want("view"):
        for t in vec_types(widths):
            for a in ops_of(t):
                for kind in ("signed", "unsigned", "bitvector"):
                    yield "view", ("view", kind, a)
                if V.is_num(t):
                    w = t[1]
                    for w2 in sorted(set(widths) | {max(widths) + 1, max(widths) + 2}):
                        yield "view", ("resize", a, w2, 0)
                        for z in (1, 2):
                            yield "view", ("resize", a, w2, z)
                    for z in (0, 1, 2):
                        yield "view", ("resize", a, None, z)
    # ---- boolean operators, chains, any/all
    if want("boolop"):
        tt = [BIT, BOOL] + [k(w) for k in (bv, u) for w in widths[:1]]
        for t1 in tt:
            for t2 in tt:
                for a in ops_of(t1):
                    for b in ops_of(t2):
                        for op in ("and", "or"):
                            yield "boolop", ("bool", op, (a, b))
                        for fn in ("any", "all"):
                            yield "boolop", ("anyall", fn, (a, b))
        if const_variants:
            # builtin any()/all() over an iterable mixing run-time values with python int constants
            for fn in ("any", "all"):
                for k in (0, 1):
                    yield "boolop", ("anyall", fn, (L(BIT), lit(k)))
                    yield "boolop", ("anyall", fn, (lit(k), L(BOOL)))
                    yield "boolop", ("anyall", fn, (L(BIT), lit(k), L(BIT)))
        for t1 in (BIT, BOOL):
            for a in ops_of(t1):
                for fn in ("any", "all"):
                    yield "boolop", ("anyall", fn, (a,))
                for b in ops_of(BIT):
                    for c in ops_of(BOOL):
                        for op in ("and", "or"):
                            yield "boolop", ("bool", op, (a, b, c))
                        for fn in ("any", "all"):
                            yield "boolop", ("anyall", fn, (a, b, c))
    if want("chain"):
        for kind in (u, s):
            for w in widths:
                w2 = widths[0] if mixed else w
                for a in ops_of(kind(w)):
                    for b in ops_of(kind(w2)):
                        for c in ops_of(kind(w)):
                            for o1 in ("lt", "le", "eq", "gt"):
                                for o2 in ("lt", "ge", "ne"):
                                    yield "chain", ("cmp", (o1, o2), (a, b, c))
                    if with_literals:
                        for k1, k2 in ((0, (1 << w) - 1), (1, 1 << w), (-1, 2)):
                            for o1 in ("lt", "le"):
                                for o2 in ("lt", "le"):
                                    yield "chain", ("cmp", (o1, o2), (lit(k1), a, lit(k2)))
    # ---- if expressions
    if want("ifexp"):
        res_types = [BIT, BOOL] + list(vec_types(widths))
        cond_types = [BIT, BOOL, u(widths[0])]
        for tc in cond_types:
            for c in ops_of(tc):
                for t in res_types:
                    for a in ops_of(t):
                        for b in ops_of(t):
                            yield "ifexp", ("if", c, a, b)
                        if V.is_num(t) and with_literals:
                            for k in int_literals(t[1]):
                                yield "ifexp", ("if", c, a, lit(k))
                                yield "ifexp", ("if", c, lit(k), a)
    # ---- select_with
    if want("select"):
        arg_types = [BIT, BOOL, ("enum", 3)] + [k(w) for k in (bv, u, s) for w in widths if w <= 2]
        for ta in arg_types:
            dom = list(V.domain(ta))
            for arg in ops_of(ta):
                for t in (BIT, u(min(2, widths[-1])), s(widths[0]), bv(widths[0])):
                    vals = ops_of(t)
                    if not vals:
                        continue
                    v0 = vals[0]
                    # complete key set without default; every proper non-empty prefix / suffix of the key set
                    # with default; literal values where the docs allow ints
                    key_sets = [dom] + [dom[:n] for n in range(1, len(dom))] + [dom[-1:]]
                    for ks in key_sets:
                        for use_default in (False, True):
                            if len(ks) < len(dom) and not use_default and len(ks) > 1:
                                continue  # partial coverage without default: one representative (single key)
                            branches = tuple((kk, v0) for kk in ks)
                            yield "select", ("sel", arg, branches, v0 if use_default else None)
                            if const_variants and arg[0] == "in" and (ks is dom or ks == dom[:1]):
                                # typed constants as branch values / default
                                for cv in vals[1:]:
                                    brc = tuple((kk, cv if i == len(ks) - 1 else v0) for i, kk in enumerate(ks))
                                    yield "select", ("sel", arg, brc, v0 if use_default else None)
                                    if use_default:
                                        yield "select", ("sel", arg, branches, cv)
                            if V.is_num(t) and with_literals and len(ks) >= 1:
                                kl = [kk2 for kk2 in (0, 1, (1 << t[1]) - 1) if V.representable(t, kk2)]
                                br2 = tuple((kk, lit(kl[i % len(kl)]) if i else v0) for i, kk in enumerate(ks))
                                yield "select", ("sel", arg, br2, lit(kl[-1]) if use_default else None)
    # ---- arrays
    if want("array"):
        for et in (u(min(2, widths[-1])), BIT, s(widths[0])):
            at = ("arr", et, 3)
            for a in ops_of(at):
                for i in range(3):
                    yield "array", ("aidx", a, i)
                for it in (u(2), u(1), s(2), INT):
                    for b in ops_of(it):
                        yield "array", ("aidxrt", a, b)


def leaf_sets(t):
    return [L(t)]


def depth1(widths, mixed=True, families=None):
    """complete depth-1 family; yields (family, tree) with operands renumbered, duplicates removed"""
    seen = set()
    for fam, tree in apply_ops(leaf_sets, list(widths), mixed=mixed, families=families):
        tree = renumber(tree)
        if not well_typed(tree):
            continue
        if tree in seen:
            continue
        seen.add(tree)
        yield fam, tree


def const_values(t):
    """typed constants used as operands: every value for widths <= 2, {0, 1, max} above"""
    if t == BIT:
        return (0, 1)
    if t == BOOL:
        return (False, True)
    if t[0] == "enum":
        return tuple(range(t[1]))
    if V.is_vec(t):
        if t[1] <= 2:
            return tuple(range(1 << t[1]))
        return (0, 1, (1 << t[1]) - 1)
    return ()


def C(t, v):
    return ("const", t, v)


CONST_FAMILIES = ("arith", "cmp", "eq", "bitwise", "cat", "shift", "boolop", "ifexp", "select")


def count_nodes(tree, kind):
    if not isinstance(tree, tuple) or not tree:
        return 0
    if isinstance(tree[0], str):
        if tree[0] == kind:
            return 1
        if tree[0] in ("in", "lit", "const"):
            return 0
        return sum(count_nodes(x, kind) for x in tree[1:])
    return sum(count_nodes(x, kind) for x in tree)


def depth1_const(widths, mixed=True, families=None, mixed_only=None):
    """depth-1 trees in which typed compile-time constants take the place of operands: every operator of
    CONST_FAMILIES with a constant in every operand position (binary operators: exactly one constant; operators
    with three or more operands: one or two), at least one run-time operand"""
    fams = [f for f in CONST_FAMILIES if families is None or f in families or "const_" + f in families]

    def operand_sets(t):
        if t[0] == "arr" or t == INT:
            return [L(t)]
        return [L(t)] + [C(t, v) for v in const_values(t)]

    seen = set()

    def gen():
        if mixed_only is None:
            yield from apply_ops(operand_sets, list(widths), mixed=mixed, with_literals=False, families=fams,
                                 const_variants=True)
        else:
            # mixed operand widths only for the listed families (the others: equal widths)
            yield from apply_ops(operand_sets, list(widths), mixed=True, with_literals=False,
                                 families=[f for f in fams if f in mixed_only], const_variants=True)
            yield from apply_ops(operand_sets, list(widths), mixed=False, with_literals=False,
                                 families=[f for f in fams if f not in mixed_only], const_variants=True)

    for fam, tree in gen():
        nc = count_nodes(tree, "const")
        if nc == 0 or count_nodes(tree, "in") == 0:
            continue
        if fam != "select" and nc > 2:
            continue
        if fam == "ifexp" and tree[1][0] == "const" and (tree[2][0] == "const" or tree[3][0] == "const"):
            continue  # constant condition: one representative per result type (both branches run-time)
        if fam == "select" and tree[1][0] != "in":
            continue  # a constant selector is not an operand position the docs describe (observed: a constant enum
            # selector emits `with eb select` without declaring the enumeration type)
        tree = renumber(tree)
        if not well_typed(tree) or tree in seen:
            continue
        seen.add(tree)
        yield "const_" + fam, tree


def _slice_ext(x, w, depth, helpers):
    """all constant index / slice (or msb/lsb/left/right helper) applications on x of width w, nested up to depth"""
    nxt = []
    if not helpers:
        for i in range(w):
            yield ("idx", x, i)
        for hi in range(w):
            for lo in range(hi + 1):
                nxt.append((("slice", x, hi, lo), hi - lo + 1))
    else:
        for fn in (("msb", "lsb", "left", "right") if helpers == "full" else ("msb", "lsb")):
            yield ("part", fn, x, None, None)
            for n in range(1, w + 1):
                nxt.append((("part", fn, x, n, None), n))
            if fn in ("msb", "lsb") and helpers == "full":
                for r in range(0, w):
                    nxt.append((("part", fn, x, None, r), w - r))
    for t, wt in nxt:
        yield t
        if depth > 1:
            yield from _slice_ext(t, wt, depth - 1, helpers)


def slice_chains(quick=True):
    """nested constant slices / indices on one root object, chain length 1..3, complete:
    BitVector[5], Unsigned[4], Signed[4] (quick: widths 4, 3, 3) with every (hi, lo) pair at every level; BitVector[4] (thorough: [5]) with
    msb(n)/lsb(n) at every level and all of msb/lsb/left/right (count and rest forms) up to length 2; plus slice->helper->index mixtures"""
    seen = set()

    def emit(tree):
        tree = renumber(tree)
        if tree not in seen and well_typed(tree):
            seen.add(tree)
            return True
        return False

    for root in ((bv(4), u(3), s(3)) if quick else (bv(5), u(4), s(4))):
        for t in _slice_ext(L(root), root[1], 3, False):
            if emit(t):
                yield "slicechain", renumber(t)
    hw = 4 if quick else 5
    # helpers: msb(n)/lsb(n) chains of length <= 3; all four helpers with count and rest forms up to length 2
    for t in _slice_ext(L(bv(hw)), hw, 3 if not quick else 2, "count"):
        if emit(t):
            yield "slicechain", renumber(t)
    for t in _slice_ext(L(bv(hw)), hw, 2, "full"):
        if emit(t):
            yield "slicechain", renumber(t)
    # mixtures: slice, then helper, then slice/index (and helper, slice, helper)
    root = L(u(5))
    for t1, w1 in [(("slice", root, hi, lo), hi - lo + 1) for hi in range(5) for lo in range(hi + 1)
                   if lo > 0 and hi - lo >= 2 and (not quick or hi == 4)]:
        for t2 in _slice_ext(t1, w1, 1, "full"):
            if t2[0] == "part" and V.typeof(t2) != BIT:
                for t3 in _slice_ext(t2, V.typeof(t2)[1], 1, False):
                    if emit(t3):
                        yield "slicechain", renumber(t3)
    # helper chains of length 3 (quick: through the mixtures below and msb/lsb(n) on the 4 bit remainder)
    for fn1, n1 in (("msb", 4), ("lsb", 4)):
        for fn2 in ("msb", "lsb"):
            for n2 in (2, 3):
                t2 = ("part", fn2, ("part", fn1, root, n1, None), n2, None)
                for t3 in _slice_ext(t2, n2, 1, "count"):
                    if emit(t3):
                        yield "slicechain", renumber(t3)
    for fn, n in ((("msb", 4),) if quick else (("msb", 4), ("lsb", 4), ("msb", 3))):
        t1 = ("part", fn, root, n, None)
        for t2 in _slice_ext(t1, n, 1, False):
            if t2[0] == "slice":
                for t3 in _slice_ext(t2, V.typeof(t2)[1], 1, "full"):
                    if emit(t3):
                        yield "slicechain", renumber(t3)


def multi_subscripts(quick=True):
    """multi-part subscripts v[p1, p2(, p3)] (first part = most significant bits): every 2-part key on widths <= 3
    (thorough: <= 4) for BitVector/Unsigned/Signed; every 3-part key on width 2 (thorough: 3) for BitVector and the
    index-only / one-slice 3-part keys on width 3 (thorough: 4)"""
    def parts(w):
        return [("i", i) for i in range(w)] + [("s", hi, lo) for hi in range(w) for lo in range(hi + 1)]

    w2 = (1, 2, 3) if quick else (1, 2, 3, 4)
    for w in w2:
        for kind in (bv, u, s):
            for a in parts(w):
                for b in parts(w):
                    yield "multi", renumber(("multi", L(kind(w)), (a, b)))
    w3 = 2 if quick else 3
    for a in parts(w3):
        for b in parts(w3):
            for c in parts(w3):
                yield "multi", renumber(("multi", L(bv(w3)), (a, b, c)))
    wi = w3 + 1
    for kind in (bv, u):
        for a in parts(wi):
            for b in parts(wi):
                for c in parts(wi):
                    if sum(1 for p_ in (a, b, c) if p_[0] == "s") <= 1 and len({a, b, c}) == 3 \
                            and all(p_[0] == "i" or p_[1] - p_[2] == 1 for p_ in (a, b, c)):
                        yield "multi", renumber(("multi", L(kind(wi)), (a, b, c)))


def select_aliases():
    """select_with whose dictionary contains several python keys denoting the same selector value (int / str /
    typed constant spellings): the first matching key wins.  Every selector value, every ordered pair of
    spellings, with and without other keys in front, with default and with complete coverage"""
    T = u(2)
    for ta in (u(2), u(1), bv(2), s(2), BIT):
        spell = ["str", "typed"] + (["int"] if ta[0] == "u" else [])
        if ta == BIT:
            spell = ["str", "typed"]
        dom = list(V.domain(ta))
        for v in dom:
            for s1 in spell:
                for s2 in spell:
                    if s1 == s2:
                        continue
                    k1, k2 = ("alias", s1, v), ("alias", s2, v)
                    other = [x for x in dom if x != v]
                    yield "selalias", ("sel", L(ta), ((k1, L(T)), (k2, L(T))), L(T))
                    yield "selalias", ("sel", L(ta), ((("alias", s1, other[0]), L(T)), (k1, L(T)), (k2, L(T))), L(T))
                    if len(dom) == 2:
                        yield "selalias", ("sel", L(ta), ((k1, L(T)), (k2, L(T)), (("alias", s1, other[0]), L(T))), None)
                    yield "selalias", ("sel", L(ta), ((k1, L(BIT)), (k2, L(BIT))), L(BIT))


def const_pairs():
    """operations whose operands are ALL typed constants (the emitted logic is the folded literal): sub, mul,
    truncdiv, mod, rem over every Unsigned/Signed constant pair of width 2 and the pairs over
    {0, 1, max positive, min, -1 / all ones} of width 3, plus the comparisons < and =="""
    for kind in (u, s):
        for w, vals in ((2, range(4)), (3, (0, 1, 3, 4, 7))):
            for a in vals:
                for b in vals:
                    ca, cb = C(kind(w), a), C(kind(w), b)
                    for op in ("sub", "mul", "tdiv", "mod", "rem"):
                        yield "constpair", ("bin", op, ca, cb)
                    yield "constpair", ("cmp", ("lt",), (ca, cb))


def null_full():
    """Null / Full as one alternative of an if-expression, of a helper with two return statements and of select_with,
    the other alternative(s) of every vector type / Bit, assigned to a target of the same type and to every wider
    documented target; Null / Full = all zeros / ones of the TARGET"""
    NF = (("null",), ("full",))
    for T in [BIT] + list(vec_types((2, 3))):
        targets = [None]
        if V.is_num(T):
            w = T[1]
            targets += [(T[0], w + 1), (T[0], w + 3)]
            if T[0] == "u":
                targets.append(("s", w + 2))
        for nf in NF:
            merges = []
            for c in (L(BIT), L(BOOL)):
                for form in ("if", "ifret"):
                    merges.append((form, c, L(T), nf))
                    merges.append((form, c, nf, L(T)))
            for arg in (L(BIT), L(u(2))):
                dom = list(V.domain(arg[1]))
                merges.append(("sel", arg, ((dom[0], L(T)),), nf))
                merges.append(("sel", arg, ((dom[0], nf),), L(T)))
                merges.append(("sel", arg, ((dom[0], L(T)), (dom[1], nf)), ("null",)))
                merges.append(("sel", arg, ((dom[0], nf), (dom[1], L(T))), ("full",) if nf[0] == "null" else ("null",)))
            for m in merges:
                for dst in targets:
                    yield "nullfull", (m if dst is None else ("conv", "assign", dst, m))


def shared_objects():
    """ONE nested-slice object bound to a name and used several times in the same expression: plain, through the
    typed views and inside arithmetic; the uses are concatenated (first use = most significant bits)"""
    xs = []
    root = L(bv(5))
    for t in _slice_ext(root, 5, 2, False):
        if t[0] == "slice" and t[1][0] == "slice" and V.typeof(t) == bv(2):
            xs.append(t)
    for t in _slice_ext(L(u(5)), 5, 3, False):
        if t[0] == "slice" and t[1][0] == "slice" and t[1][1][0] == "slice" and V.typeof(t) == bv(2) \
                and t[1][3] > 0 and t[1][1][3] > 0:
            xs.append(t)
    xs.append(("part", "lsb", ("part", "msb", root, 4, None), 2, None))
    xs.append(("part", "msb", ("part", "lsb", root, 4, None), 2, None))
    B = ("bound", bv(2))
    uses = [B, ("bin", "add", ("view", "unsigned", B), L(u(2))), ("bin", "shr", ("view", "signed", B), lit(1)),
            ("view", "bitvector", B), ("un", "inv", B), ("view", "unsigned", B)]
    bodies = []
    for i, a in enumerate(uses):
        for j, b in enumerate(uses):
            if i != j and ((i < 3 and j < 3) or (i, j) in ((0, 3), (3, 1), (4, 2), (1, 5), (5, 0))):
                bodies.append(("bin", "cat", a, b))
    bodies.append(("bin", "cat", uses[0], ("bin", "cat", uses[1], uses[2])))
    bodies.append(("bin", "cat", uses[2], ("bin", "cat", uses[1], uses[0])))
    bodies.append(("cmp", ("lt",), (("view", "signed", B), ("view", "signed", B))))
    for x in xs:
        for body in bodies:
            yield "shared", ("shared", x, body)


ITER_CONSUMERS = ("reverse", "stretch2", "anycomp", "allstar", "catnot")


def iter_chains(quick=True, consumers=ITER_CONSUMERS):
    """iteration consumers over nested constant slices (chain length 2..3, every (hi, lo) pair at every level,
    plus msb(n)/lsb(n) chains) of one root object"""
    root = bv(4) if quick else bv(5)
    chains = []
    for t in _slice_ext(L(root), root[1], 3, False):
        if t[0] == "slice" and t[1][0] == "slice":
            chains.append(t)
    for t in _slice_ext(L(root), root[1], 3 if not quick else 2, "count"):
        if t[0] == "part" and t[2][0] == "part" and V.typeof(t) != BIT:
            chains.append(t)
    for kind in (u, s):
        r2 = kind(4)
        for t in _slice_ext(L(r2), 4, 2, False):
            if t[0] == "slice" and t[1][0] == "slice":
                chains.append(t)
    main = set(c for c in ("reverse", "catnot", "anycomp") if c in consumers)
    for n, t in enumerate(chains):
        for c in consumers:
            # quick: all consumers on the length-2 slice chains of the BitVector root, three of them elsewhere
            if quick and c not in main and not (t[1][1][0] == "in" and V.typeof(t[1][1])[0] == "bv" and t[0] == "slice"):
                continue
            if quick and c == "catnot" and t[0] == "part":
                continue
            yield "iter", ("iter", c, t)


SRC_KINDS = ("always", "alwaysblock", "localsig", "localvar", "fn")


def source_views(quick=True):
    """operand-source dimension: an operand that is the result of cohdl.always(expr), a `with cohdl.always:` block,
    a locally constructed Signal / Variable or a function return value, used directly and through every typed view
    in signedness dependent operations"""
    seen = set()
    widths = (2,) if quick else (2, 3)
    for kind in SRC_KINDS:
        for w in widths:
            for T in (u(w), s(w), bv(w)):
                inners = [L(T)]
                if V.is_num(T):
                    inners.append(("bin", "add", L(T), L(T)))
                else:
                    inners.append(("bin", "xor", L(T), L(T)))
                if quick:
                    # cohdl.always of a bare operand is an alias; locally constructed objects get the bare operand
                    inners = inners[1:] if kind in ("always", "alwaysblock") else inners[:1]
                for inner in inners:
                    o = ("src", kind, inner)
                    views = [o] + [("view", vk, o) for vk in ("signed", "unsigned", "bitvector")]
                    views.append(("view", "signed", ("view", "bitvector", o)))
                    for v in views:
                        tv = V.typeof(v)
                        cands = [v, ("slice", v, w - 1, 1), ("idx", v, w - 1), ("bin", "cat", v, L(BIT))]
                        if V.is_num(tv):
                            cands += [("resize", v, w + 2, 0), ("cmp", ("lt",), (v, lit(0))),
                                      ("cmp", ("lt",), (v, L(tv))), ("cmp", ("ge",), (L(tv), v)),
                                      ("bin", "shr", v, lit(1)), ("bin", "shr", v, L(u(1))), ("un", "neg", v),
                                      ("bin", "mul", v, L(tv)), ("bin", "tdiv", v, L(tv)),
                                      ("conv", "assign", (tv[0], w + 2), v), ("conv", "temporary", ("s", w + 2), v)]
                            if tv[0] == "s":
                                cands.append(("un", "abs", v))
                        else:
                            cands += [("cmp", ("eq",), (v, L(tv))), ("un", "inv", v)]
                        for t in cands:
                            t = renumber(t)
                            if t not in seen and well_typed(t):
                                seen.add(t)
                                yield "srcview", t


def source_selects(quick=True):
    """if-expressions and select_with with an operand of every source kind in every operand position
    (condition / selector, then, else / default, dictionary branch), and redundant bool(...) of boolean temporaries"""
    seen = set()

    def srcs(T):
        out = []
        inner = ("bin", "add", L(T), lit(1)) if V.is_num(T) else (("un", "inv", L(T)) if T != BOOL else ("un", "not", L(BOOL)))
        for kind in SRC_KINDS:
            if not quick or kind not in ("always", "alwaysblock"):
                out.append(("src", kind, L(T)))
            if not quick or kind in ("always", "alwaysblock", "localsig"):
                out.append(("src", kind, inner))
        if T == BOOL:
            out.append(("tobool", ("cmp", ("lt",), (L(u(2)), L(u(2))))))
            out.append(("tobool", ("tobool", L(BIT))))
        return out

    val_types = (u(2), BIT, BOOL) if quick else (u(2), s(2), bv(2), BIT, BOOL)
    for T in val_types:
        for sv in srcs(T):
            for c in (L(BIT), L(BOOL)):
                for tree in (("if", c, sv, L(T)), ("if", c, L(T), sv), ("if", c, sv, sv)):
                    yield "srcsel", tree
            for arg in (L(BIT), L(u(1))):
                for tree in (("sel", arg, ((0, sv), (1, L(T))), None), ("sel", arg, ((0, L(T)), (1, sv)), None),
                             ("sel", arg, ((0, L(T)),), sv), ("sel", arg, ((1, sv),), L(T)),
                             ("sel", arg, ((0, sv),), sv)):
                    yield "srcsel", tree
    for T in (BIT, BOOL, u(1)):
        for sv in srcs(T):
            yield "srcsel", ("if", sv, L(u(2)), L(u(2)))
            if T != BOOL:
                yield "srcsel", ("sel", sv, ((0, L(u(2))),), L(u(2)))
                yield "srcsel", ("sel", sv, ((0, L(u(2))), (1, L(u(2)))), None)
    # bool(...) of boolean temporaries as operands
    b1 = ("tobool", ("cmp", ("lt",), (L(u(2)), L(u(2)))))
    for c in (L(BIT), L(BOOL), b1):
        for tree in (("if", c, L(BOOL), b1), ("if", c, b1, L(BOOL)), ("if", c, L(BIT), ("conv", "temporary", BIT, b1))):
            yield "srcsel", tree


def _dedup(gen):
    seen = set()
    for fam, tree in gen:
        tree = renumber(tree)
        if tree not in seen and well_typed(tree):
            seen.add(tree)
            yield fam, tree


CONV_FORMS = ("assign", "signal", "variable", "temporary", "varassign")


def conversions(widths, operand_src_widths=None):
    """every documented conversion (src type, width) -> (dst type, width) in every form, and conversions used as
    operands of arithmetic / comparison with a value of the target type"""
    widths = list(widths)
    dst_widths = widths + [widths[-1] + 1, widths[-1] + 3]
    srcs = [BIT, BOOL] + list(vec_types(widths))
    dsts = [BIT, BOOL] + [k(w) for w in dst_widths for k in (bv, u, s)]
    seen = set()
    for src in srcs:
        for dst in dsts:
            if not V.convertible(src, dst):
                continue
            for form in CONV_FORMS:
                t = renumber(("conv", form, dst, L(src)))
                if t not in seen and well_typed(t):
                    seen.add(t)
                    yield "conv", t
            if V.is_num(dst) and src != dst and (operand_src_widths is None or V.width(src) in operand_src_widths):
                for form in ("temporary", "signal"):
                    c = ("conv", form, dst, L(src))
                    for tree in (("bin", "add", c, L(dst)), ("bin", "sub", L(dst), c), ("bin", "mul", c, L(dst)),
                                 ("cmp", ("lt",), (c, L(dst))), ("cmp", ("eq",), (L(dst), c)), ("un", "neg", c),
                                 ("bin", "shr", c, lit(1))):
                        if form == "signal" and tree[0] != "bin":
                            continue
                        t = renumber(tree)
                        if t not in seen and well_typed(t):
                            seen.add(t)
                            yield "conv", t


# inner operators of depth-2 trees: one representative per code path of the emitter (operator text, cast,
# function call, selected assignment, slice) -- each produces a Temporary the outer operator has to consume
def inner_exprs(widths):
    inner = {}

    def add(tree):
        tree = renumber(tree)
        if well_typed(tree):
            inner.setdefault(V.typeof(tree), []).append(tree)

    for kind in (u, s):
        for w in widths:
            a, b = L(kind(w)), L(kind(w))
            for op in ("add", "sub", "mul", "tdiv", "mod"):
                add(("bin", op, a, b))
            add(("bin", "add", a, lit(1)))
            add(("bin", "sub", lit(1), a))
            add(("un", "neg", a))
            add(("un", "inv", a))
            add(("bin", "shl", a, L(u(widths[0]))))
            add(("bin", "shr", a, lit(1)))
            add(("resize", a, w + 1, 0))
            add(("if", L(BIT), a, b))
            for op in ("lt", "eq"):
                add(("cmp", (op,), (a, b)))
            add(("cmp", ("ge",), (a, lit(1))))
            add(("view", "bitvector", a))
            add(("view", "signed" if kind is u else "unsigned", a))
            add(("sel", L(BIT), ((0, a),), b))
            if w > 1:
                add(("slice", a, w - 1, 1))
            add(("idx", a, w - 1))
            add(("idxrt", a, L(u(1))))
    for w in widths:
        add(("un", "abs", L(s(w))))
    for w in widths:
        a, b = L(bv(w)), L(bv(w))
        add(("bin", "and", a, b))
        add(("un", "inv", a))
        add(("cmp", ("ne",), (a, b)))
        add(("view", "unsigned", a))
        add(("view", "signed", a))
        add(("if", L(BOOL), a, b))
    add(("bin", "cat", L(BIT), L(BIT)))
    add(("bin", "cat", L(u(1)), L(BIT)))
    add(("bin", "xor", L(BIT), L(BIT)))
    add(("un", "inv", L(BIT)))
    add(("un", "not", L(BIT)))
    add(("un", "not", L(BOOL)))
    add(("bool", "and", (L(BIT), L(BOOL))))
    add(("bool", "or", (L(BOOL), L(BOOL))))
    add(("anyall", "any", (L(BIT), L(BIT))))
    add(("if", L(BOOL), L(BIT), L(BIT)))
    add(("if", L(BIT), L(BOOL), L(BOOL)))
    # de-duplicate per type
    return {t: list(dict.fromkeys(v)) for t, v in inner.items()}


def depth2(widths, families=None):
    """every operator of the alphabet applied to operands of which at least one is an inner expression"""
    widths = list(widths)
    inner = inner_exprs(widths)

    def operand_sets(t):
        if t[0] in ("arr", "enum") or t == INT:
            return [L(t)]
        return [L(t)] + inner.get(t, [])

    seen = set()
    for fam, tree in apply_ops(operand_sets, widths, mixed=True, with_literals=False, families=families):
        ch = _children(tree)
        n_inner = sum(1 for c in ch if c[0] not in ("in", "lit"))
        if n_inner == 0 or (len(ch) >= 3 and n_inner != 1):
            continue
        tree = renumber(tree)
        if not well_typed(tree):
            continue
        if tree in seen:
            continue
        seen.add(tree)
        yield fam, tree


def _children(n):
    k = n[0]
    if k in ("in", "lit", "const", "bound", "null", "full"):
        return []
    if k == "ifret":
        return [n[1], n[2], n[3]]
    if k == "shared":
        return [n[1], n[2]]
    if k == "bin":
        return [n[2], n[3]]
    if k == "cmp":
        return list(n[2])
    if k in ("un", "view", "anyvec"):
        return [n[2]]
    if k in ("bool", "anyall"):
        return list(n[2])
    if k == "tobool":
        return [n[1]]
    if k == "if":
        return [n[1], n[2], n[3]]
    if k in ("idx", "slice", "resize", "aidx"):
        return [n[1]]
    if k == "conv":
        return [n[3]]
    if k in ("src", "iter"):
        return [n[2]]
    if k == "multi":
        return [n[1]]
    if k == "part":
        return [n[2]]
    if k in ("idxrt", "aidxrt"):
        return [n[1], n[2]]
    if k == "sel":
        return [n[1]] + [e for _, e in n[2]] + ([n[3]] if n[3] is not None else [])
    return []


# ---------------------------------------------------------------------------------------------
# rendering
# ---------------------------------------------------------------------------------------------
ENUM_LITS = ("ea", "eb", "ec", "ed")


def py_type(t):
    """CoHDL spelling of a type (port declarations)"""
    if t == BIT:
        return "Bit"
    if t == BOOL:
        return "bool"
    if t == INT:
        return "Integer"
    if t[0] == "bv":
        return f"BitVector[{t[1]}]"
    if t[0] == "u":
        return f"Unsigned[{t[1]}]"
    if t[0] == "s":
        return f"Signed[{t[1]}]"
    if t[0] == "enum":
        return f"En{t[1]}"
    if t[0] == "arr":
        return f"Array[{py_type(t[1])}, {t[2]}]"
    raise ValueError(t)


def const_text(t, v):
    """a compile-time constant of type t with value v, as CoHDL source"""
    if t == BIT:
        return f"Bit({int(v)})"
    if t == BOOL:
        return "True" if v else "False"
    if t == INT:
        return "I_m%d" % -v if v < 0 else "I_%d" % v  # module-level Integer constants of HEADER
    if t[0] == "bv":
        return f'BitVector[{t[1]}]("{v:0{t[1]}b}")'
    if t[0] == "u":
        return f"Unsigned[{t[1]}]({v})"
    if t[0] == "s":
        return f"Signed[{t[1]}]({V.as_signed(v, t[1])})"
    if t[0] == "enum":
        return f"En{t[1]}.{ENUM_LITS[v]}"
    raise ValueError(t)


def key_text(t, v):
    """a select_with key for an argument of type t"""
    if isinstance(v, tuple) and v and v[0] == "alias":
        sp, val = v[1], v[2]
        if sp == "int":
            return str(val)
        if sp == "typed":
            return const_text(t, val)
        if sp == "str":
            return f'"{val:0{V.width(t)}b}"'
        raise ValueError(sp)
    if t == BIT:
        return f"Bit({v})"
    if t == BOOL:
        return "True" if v else "False"
    if V.is_vec(t):
        return f'"{v:0{t[1]}b}"'
    if t[0] == "enum":
        return f"En{t[1]}.{ENUM_LITS[v]}"
    raise ValueError(t)


def render(node, leaf, mode="hw", prelude=None):
    """CoHDL/Python source of a tree; leaf(slot, type) -> text of the operand.
    mode "hw": inside a synthesizable context; "py": on plain Python objects (conversions are written as
    constructor calls); "desc": type-annotated description.  prelude: {"lines": [...], "prefix": str} collects
    statements that have to precede the expression (variable assignment form of conversions)."""
    k = node[0]
    R = lambda n: render(n, leaf, mode, prelude)  # noqa
    if k == "null":
        return "Null"
    if k == "full":
        return "Full"
    if k == "ifret":
        return f"_ret2({R(node[1])}, {R(node[2])}, {R(node[3])})"
    if k == "bound":
        return "f_" if mode != "hw" else prelude["bound"]
    if k == "shared":
        if mode == "desc":
            return f"let f_={R(node[1])}: {R(node[2])}"
        if mode == "py":
            return f"(lambda f_: {R(node[2])})({R(node[1])})"
        prelude["bound"] = _pre(prelude, R(node[1]))
        return R(node[2])
    if k == "iter":
        X = R(node[2])
        return {"reverse": f"std.reverse_bits({X})", "stretch2": f"std.stretch({X}, 2)",
                "anycomp": f"any([b_ for b_ in {X}])", "allstar": f"all([*{X}])",
                "catnot": f"std.concat(*[~b_ for b_ in {X}])"}[node[1]]
    if k == "multi":
        parts = ", ".join(str(p_[1]) if p_[0] == "i" else f"{p_[1]}:{p_[2]}" for p_ in node[2])
        return f"{R(node[1])}[{parts}]"
    if k == "src":
        kind, x = node[1], node[2]
        if mode == "desc":
            return f"{kind}<{R(x)}>"
        if mode == "py":
            return R(x)
        ctx = (prelude or {}).get("ctx", "q")
        if kind == "fn":
            return f"_ident({R(x)})"
        if kind == "localsig":
            return _pre(prelude, f"Signal[{py_type(V.typeof(x))}]({R(x)})")
        if ctx == "c":
            return R(x)  # cohdl.always / local variables exist in sequential contexts only
        if kind == "localvar":
            return _pre(prelude, f"Variable[{py_type(V.typeof(x))}]({R(x)})")
        if kind == "always":
            return _pre(prelude, f"cohdl.always({R(x)})")
        if kind == "alwaysblock":
            name = f"{prelude['prefix']}{len(prelude['lines'])}"
            prelude["lines"].append("with cohdl.always:")
            prelude["lines"].append(f"    {name} = {R(x)}")
            return name
        raise ValueError(kind)
    if k == "conv":
        form, dst, x = node[1], node[2], node[3]
        D = py_type(dst)
        if mode == "desc":
            return f"conv[{form}->{V.tname(dst)}]({R(x)})"
        if mode == "py":
            return f"{'Bit' if dst == BIT else D}({R(x)})"
        if form == "assign":
            return R(x)
        if form in ("signal", "variable", "temporary"):
            return f"{form.capitalize()}[{D}]({R(x)})"
        if form == "varassign":
            if prelude is None:
                raise ValueError("varassign needs a prelude")
            name = f"{prelude['prefix']}{len(prelude['lines'])}"
            prelude["lines"].append(f"{name} = Variable[{D}]()")
            prelude["lines"].append(f"{name} @= {R(x)}")
            return name
        raise ValueError(form)
    if k == "in":
        return leaf(node[2], node[1])
    if k == "lit":
        return f"({node[1]})" if node[1] < 0 else str(node[1])
    if k == "const":
        return const_text(node[1], node[2])
    if k == "bin":
        op = node[1]
        if op == "tdiv":
            return f"op.truncdiv({R(node[2])}, {R(node[3])})"
        if op == "rem":
            return f"op.rem({R(node[2])}, {R(node[3])})"
        return f"({R(node[2])} {ARITH_SYMS[op]} {R(node[3])})"
    if k == "cmp":
        parts = [R(node[2][0])]
        for op, e in zip(node[1], node[2][1:]):
            parts.append(CMP_SYMS[op])
            parts.append(R(e))
        return "(" + " ".join(parts) + ")"
    if k == "un":
        op = node[1]
        if op == "inv":
            return f"(~{R(node[2])})"
        if op == "neg":
            return f"(-{R(node[2])})"
        if op == "abs":
            return f"abs({R(node[2])})"
        return f"(not {R(node[2])})"
    if k == "bool":
        return "(" + f" {node[1]} ".join(R(e) for e in node[2]) + ")"
    if k == "tobool":
        return f"bool({R(node[1])})"
    if k == "if":
        return f"({R(node[2])} if {R(node[1])} else {R(node[3])})"
    if k == "idx":
        return f"{R(node[1])}[{node[2]}]"
    if k == "idxrt":
        return f"{R(node[1])}[{R(node[2])}]"
    if k == "slice":
        return f"{R(node[1])}[{node[2]}:{node[3]}]"
    if k == "part":
        fn, x, count, rest = node[1:]
        args = "" if count is None and rest is None else (str(count) if count is not None else f"rest={rest}")
        return f"{R(x)}.{fn}({args})"
    if k == "view":
        return f"{R(node[2])}.{node[1]}"
    if k == "resize":
        w, z = node[2], node[3]
        args = []
        if w is not None:
            args.append(str(w))
        if z or w is None:
            args.append(f"zeros={z}")
        return f"{R(node[1])}.resize({', '.join(args)})"
    if k == "sel":
        ta = V.typeof(node[1])
        br = ", ".join(f"{key_text(ta, kk)}: {R(e)}" for kk, e in node[2])
        d = f", default={R(node[3])}" if node[3] is not None else ""
        return f"select_with({R(node[1])}, {{{br}}}{d})"
    if k == "anyall":
        return f"{node[1]}([" + ", ".join(R(e) for e in node[2]) + "])"
    if k == "anyvec":
        return f"{node[1]}({R(node[2])})"
    if k == "aidx":
        return f"{R(node[1])}[{node[2]}]"
    if k == "aidxrt":
        return f"{R(node[1])}[{R(node[2])}]"
    raise ValueError(k)


def _pre(prelude, text):
    if prelude is None:
        raise ValueError("operand source needs a prelude")
    name = f"{prelude['prefix']}{len(prelude['lines'])}"
    prelude["lines"].append(f"{name} = {text}")
    return name


def describe(node):
    """canonical, type-annotated text of a tree (the identity of a failing input in finding keys)"""
    return render(node, lambda slot, t: f"{V.tname(t)}", mode="desc")


HEADER = '''import cohdl
from cohdl import std, enum, Entity, Port, Bit, BitVector, Unsigned, Signed, Signal, Variable, Temporary, Null, Full, select_with, op, Array, Integer


class En3(enum.Enum):
    ea = enum.auto()
    eb = enum.auto()
    ec = enum.auto()


for _k in range(-9, 10):
    globals()["I_m%d" % -_k if _k < 0 else "I_%d" % _k] = Integer(_k)

def _ident(v):
    return v


def _ret2(c, a, b):
    if c:
        return a
    return b


_TY = {}


@cohdl.pyeval
def _T(key, x):
    """records the CoHDL type (and, for constants, the value) the compiler computed for an expression"""
    _TY[key] = _describe(x)
    return x


def _describe(x):
    from cohdl._core._type_qualifier import TypeQualifierBase

    val = None
    if isinstance(x, TypeQualifierBase):
        t = x.type
        obj = None
    else:
        t = type(x)
        obj = x
    if t is bool:
        return ("bool", None if obj is None else bool(obj))
    if t is int:
        return ("int", obj)
    try:
        if issubclass(t, Signed):
            return ("s%d" % t.width, None if obj is None else obj.to_int() % (1 << t.width))
        if issubclass(t, Unsigned):
            return ("u%d" % t.width, None if obj is None else obj.to_int())
        if issubclass(t, BitVector):
            return ("bv%d" % t.width, None if obj is None else obj.unsigned.to_int())
        if issubclass(t, Bit):
            return ("bit", None if obj is None else int(bool(obj)))
        if issubclass(t, Integer):
            return ("int", None if obj is None else int(obj))
        if issubclass(t, cohdl.Boolean if hasattr(cohdl, "Boolean") else ()):
            return ("bool", None if obj is None else bool(obj))
        if issubclass(t, enum.Enum):
            return ("enum%d" % len(t), None if obj is None else list(t).index(obj))
    except Exception as e:
        return ("?" + repr(t), None)
    n = getattr(t, "__name__", repr(t))
    if "Boolean" in n:
        return ("bool", None if obj is None else bool(obj))
    return ("?" + n, None)
'''

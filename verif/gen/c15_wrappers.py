"""C15: CoHDL source of the wrapper entities around std.SyncFlag / std.Mailbox and the configuration list.

configuration = (kind, tx_delay, rx_delay, contexts)
  kind  "flag"        producer calls set() only while it observes is_clear()                     (plain processes)
        "flag_force"  producer calls set() whenever the environment asks, also while it observes
                      the flag set ("a set issued while the flag is already set has no effect")
        "mailbox"     Mailbox[BitVector[2]]: send(data) while is_clear(); consumer reads data() and clears
        "flag_coro"   documented coroutine idiom: set(); await is_clear()   /   await flag.receive()
        "flag_with"   consumer uses `async with flag:`
        "mailbox_coro" send(); await is_clear()   /   data = await mailbox.receive()
  contexts 1 = producer and consumer code in one std.sequential context (producer code first),
           "1r" = one context, consumer code first, 2 = two contexts on the same clock

All observations are registered outputs written by the context that makes the observation, so what the monitor
reads after a clock is exactly what that context saw at the clock edge:
  p_clear/p_set   producer's is_clear()/is_set()      issued   producer called set()/send() at this edge
  c_set/c_clear   consumer's is_set()/is_clear()      consumed consumer called clear() at this edge
  sent_data       the payload given to send()          got_data the payload read by the consumer
Coroutine kinds only produce the event pulses (sent, saw_clear, got) and payloads.
"""
from __future__ import annotations

KINDS = ("flag", "flag_force", "mailbox", "flag_coro", "flag_with", "mailbox_coro")
DATA_W = 2


def configs(thorough):
    dmax = 4 if thorough else 2
    out = []
    for kind in KINDS:
        for tx in range(dmax + 1):
            for rx in range(dmax + 1):
                for ctxs in (1, "1r", 2):
                    if ctxs != 2 and kind.endswith(("coro", "with")):
                        continue  # two coroutines cannot share one context function
                    out.append((kind, tx, rx, ctxs))
    return out


def key(cfg):
    kind, tx, rx, ctxs = cfg
    return f"{kind}/tx={tx},rx={rx}/ctx={ctxs}"


def is_mailbox(cfg):
    return cfg[0].startswith("mailbox")


def is_coro(cfg):
    return cfg[0].endswith(("coro", "with"))


def _kw(tx, rx):
    if tx == 0 and rx == 0:
        return ""
    if tx == rx:
        return f"delay={tx}"
    return f"tx_delay={tx}, rx_delay={rx}"


HEADER = """import cohdl
from cohdl import std, Bit, BitVector, Port, Null
"""


def render(cfg):
    kind, tx, rx, ctxs = cfg
    mb = is_mailbox(cfg)
    obj = f"std.Mailbox[BitVector[{DATA_W}]]({_kw(tx, rx)})" if mb else f"std.SyncFlag({_kw(tx, rx)})"
    ports = """    clk = Port.input(Bit)
    send_req = Port.input(Bit)
    recv_rdy = Port.input(Bit)
"""
    if mb:
        ports += f"""    data = Port.input(BitVector[{DATA_W}])
    sent_data = Port.output(BitVector[{DATA_W}], default=Null)
    got_data = Port.output(BitVector[{DATA_W}], default=Null)
"""
    if is_coro(cfg):
        ports += """    sent = Port.output(Bit, default=False)
    saw_clear = Port.output(Bit, default=False)
    got = Port.output(Bit, default=False)
"""
        send = "x.send(self.data)\n            self.sent_data <<= self.data" if mb else "x.set()"
        prod = f"""        @std.sequential(clk)
        async def producer():
            await self.send_req
            {send}
            self.sent ^= True
            await x.is_clear()
            self.saw_clear ^= True
"""
        if kind == "flag_coro":
            recv = "await x.receive()"
        elif kind == "flag_with":
            recv = "async with x:\n                pass"
        else:
            recv = "self.got_data <<= await x.receive()"
        cons = f"""        @std.sequential(clk)
        async def consumer():
            await self.recv_rdy
            {recv}
            self.got ^= True
"""
        body = prod + "\n" + cons
    else:
        ports += """    p_clear = Port.output(Bit, default=False)
    p_set = Port.output(Bit, default=False)
    issued = Port.output(Bit, default=False)
    c_set = Port.output(Bit, default=False)
    c_clear = Port.output(Bit, default=False)
    consumed = Port.output(Bit, default=False)
"""
        gate = "self.send_req" if kind == "flag_force" else "self.send_req and x.is_clear()"
        send = "x.send(self.data)\n                self.sent_data <<= self.data" if mb else "x.set()"
        take = "self.got_data <<= x.data()\n                x.clear()" if mb else "x.clear()"
        p = f"""            self.issued <<= False
            self.p_clear <<= x.is_clear()
            self.p_set <<= x.is_set()
            if {gate}:
                {send}
                self.issued <<= True
"""
        c = f"""            self.consumed <<= False
            self.c_set <<= x.is_set()
            self.c_clear <<= x.is_clear()
            if self.recv_rdy and x.is_set():
                {take}
                self.consumed <<= True
"""
        if ctxs in (1, "1r"):
            first, second = (p, c) if ctxs == 1 else (c, p)
            body = f"""        @std.sequential(clk)
        def both():
{first}{second}"""
        else:
            body = f"""        @std.sequential(clk)
        def producer():
{p}
        @std.sequential(clk)
        def consumer():
{c}"""
    return f"""{HEADER}

class T(cohdl.Entity):
{ports}
    def architecture(self):
        clk = std.Clock(self.clk)
        x = {obj}

{body}
"""

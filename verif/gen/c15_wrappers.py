"""C15: CoHDL source of the wrapper entities around std.SyncFlag / std.Mailbox and the configuration list.

configuration = (kind, tx_delay, rx_delay, contexts)
  kind  "flag"        producer calls set() only while it observes is_clear()                     (plain processes)
        "flag_force"  producer calls set() whenever the environment asks, also while it observes
                      the flag set ("a set issued while the flag is already set has no effect")
        "mailbox"     Mailbox[BitVector[2]]: send(data) while is_clear(); consumer reads data() and clears
        "flag_coro"   documented coroutine idiom: set(); await is_clear()   /   await flag.receive()
        "flag_with"   consumer uses `async with flag:`
        "mailbox_coro" send(); await is_clear()   /   data = await mailbox.receive()
  contexts 1 = producer and consumer code in one std.sequential context (producer code first),
           "1r" = one context, consumer code first, 2 = two contexts on the same clock

Usage-idiom kinds (always two contexts; event pulses only; `<x>` = flag | mailbox):
  <x>_chold_a   consumer:  await x.is_set(); if hold: await go;            take; got ^= True; x.clear()
  <x>_chold_b   consumer:  await x.is_set(); if hold: await go  else: mark ^= True;  take; got ^= True; x.clear()
  <x>_chold_c   consumer:  if hold: await go;   (data =) await x.receive(); got ^= True
  <x>_phold_a   producer:  await send_req; await x.is_clear(); if hold: await go;   x.set()/send(data); sent ^= True
  <x>_phold_b   producer:  if hold: await go;   await x.is_clear(); x.set()/send(data); sent ^= True
                (the other side is a plain process: set/send while is_clear() resp. take while recv_rdy and is_set())
  <x>_loop_a    producer coroutine that STARTS with `while True:`  x.set()/send(data); sent ^= True; await x.is_clear()
  <x>_loop_c    the same with a trailing `continue` (upstream test_mailbox_02); the consumer is the plain process and
                may stall (recv_rdy = 0) for any number of clocks
  with_r0..r4   consumer takes a SyncFlag-guarded payload signal through a helper coroutine whose body is
                `async with flag:` with  r0 no return / r1 unconditional return / r2 conditional early return
                (condition = environment input `discard`) / r3 return inside a nested if / r4 return in both branches.
                The process uses the helper as `if await take(): got ^= True` (r2, r3, r4, r1c), `await take()` (r0) or
                `ok = await take()` + `if ok:` (r1; r1c is the same helper behind `if await take():`, whose result is a
                compile-time constant).
                A discarded event is reported on `dropped` (it has been handed to the consumer all the same).
  with_w1/w2    the conditional return sits inside `while self.discard2:` (w2: with an else branch in the loop body)
  with_f1       ... inside a `for` loop over (discard, discard2), taking the payload after the loop
  with_f2       ... the same with the taking code in the `else:` clause of the for loop
  with_n1/n2    ... inside a for loop inside a while loop / a while loop inside a while loop
  with_a1       ... after a while loop, still inside the `async with`
  extra environment inputs: hold, go  resp.  discard, discard2  (every combination each clock)

All observations are registered outputs written by the context that makes the observation, so what the monitor
reads after a clock is exactly what that context saw at the clock edge:
  p_clear/p_set   producer's is_clear()/is_set()      issued   producer called set()/send() at this edge
  c_set/c_clear   consumer's is_set()/is_clear()      consumed consumer called clear() at this edge
  sent_data       the payload given to send()          got_data the payload read by the consumer
Coroutine kinds only produce the event pulses (sent, saw_clear, got) and payloads.
"""
from __future__ import annotations

KINDS = ("flag", "flag_force", "mailbox", "flag_coro", "flag_with", "mailbox_coro")
IDIOMS = tuple(f"{x}_{k}" for x in ("flag", "mailbox") for k in ("chold_a", "chold_b", "chold_c", "phold_a", "phold_b")) + \
    ("flag_loop_a", "mailbox_loop_a", "mailbox_loop_c", "flag_loop_c") + \
    ("with_r0", "with_r1", "with_r1c", "with_r2", "with_r3", "with_r4",
     "with_w1", "with_w2", "with_f1", "with_f2", "with_n1", "with_n2", "with_a1")
LOOP_IDIOMS = ("with_w1", "with_w2", "with_n1", "with_n2", "with_a1")   # discard2 = loop condition ("busy")
DATA_W = 2
# Mailbox with a std.Record payload whose two members have the SAME type, sent in every constructor form;
# the consumer re-assembles the payload member by member
REC_FORMS = {"pos": "Pk(self.data[0], self.data[1])", "kw": "Pk(a=self.data[0], b=self.data[1])",
             "kwrev": "Pk(b=self.data[1], a=self.data[0])", "mix": "Pk(self.data[0], b=self.data[1])"}
REC_KINDS = tuple(f"mailbox_rec:{f}" for f in REC_FORMS) + ("mailbox_rec:kwrev_coro", "mailbox_rec:mix_coro")
# two objects with delays whose producer ends share one context and whose consumer ends share another one;
# object 0 has (tx, rx), object 1 has (rx, tx); each has its own requests and its own monitor
# capitalised user names (SyncFlag(name="Req"), `with std.prefix("Link"):` around a Mailbox) and a third context that only
# observes the object
CAP_KINDS = ("flag_Cap", "mailbox_Cap")
QUICK_CAP_DELAYS = [(0, 1), (1, 1), (1, 2), (2, 1), (0, 2), (4, 0), (0, 4), (4, 4)]
PAIR_KINDS = ("pair_flag_flag", "pair_mailbox_flag", "pair_mailbox_mailbox")
QUICK_PAIR_DELAYS = [(1, 1), (1, 2), (0, 1), (3, 1)]
QUICK_REC_DELAYS = [(0, 0), (1, 1), (2, 1)]


def is_pair(cfg):
    return cfg[0] in PAIR_KINDS


def pair_members(cfg):
    """('flag'|'mailbox', tx, rx) for object 0 and object 1"""
    _, a, b = cfg[0].split("_")
    return (a, cfg[1], cfg[2]), (b, cfg[2], cfg[1])


QUICK_IDIOM_DELAYS = [(0, 0), (1, 1), (0, 1), (1, 0), (1, 2), (2, 1), (3, 0), (0, 3)]
# delay lines of >= 2 stages (delay >= 3) in each direction and through the `delay=` shorthand (tx == rx)
QUICK_LONG_DELAYS = [(3, 0), (0, 3), (3, 3), (4, 4), (3, 1), (1, 3)]


def is_idiom(cfg):
    return cfg[0] in IDIOMS


def extra_inputs(cfg):
    """names of the additional environment inputs of a configuration (in choice order)"""
    k = cfg[0]
    if "hold" in k:
        return ("hold", "go")
    if k in ("with_r2", "with_r4"):
        return ("discard",)
    if k in ("with_r3", "with_f1", "with_f2") or k in LOOP_IDIOMS:
        return ("discard", "discard2")
    return ()


def uses_rdy(cfg):
    k = cfg[0]
    return not ("chold" in k or k.startswith("with_"))


def has_payload(cfg):
    return cfg[0].startswith("mailbox") or cfg[0].startswith("with_")


def configs(thorough):
    dmax = 4 if thorough else 2
    out = []
    for kind in KINDS:
        for tx in range(dmax + 1):
            for rx in range(dmax + 1):
                for ctxs in (1, "1r", 2):
                    if ctxs != 2 and kind.endswith(("coro", "with")):
                        continue  # two coroutines cannot share one context function
                    out.append((kind, tx, rx, ctxs))
        if not thorough:
            for tx, rx in QUICK_LONG_DELAYS:
                out.append((kind, tx, rx, 2))
    for kind in REC_KINDS:
        for tx in range(dmax + 1):
            for rx in range(dmax + 1):
                if thorough or (tx, rx) in QUICK_REC_DELAYS:
                    out.append((kind, tx, rx, 2))
    for kind in CAP_KINDS:
        for tx in range(5):
            for rx in range(5):
                if thorough or (tx, rx) in QUICK_CAP_DELAYS:
                    out.append((kind, tx, rx, 2))
    for kind in PAIR_KINDS:
        for tx in range(dmax + 1):
            for rx in range(dmax + 1):
                if (tx or rx) and (thorough and max(tx, rx) <= 3 or (tx, rx) in QUICK_PAIR_DELAYS):
                    out.append((kind, tx, rx, 2))
    for kind in IDIOMS:
        for tx in range(dmax + 1):
            for rx in range(dmax + 1):
                if thorough or (tx, rx) in QUICK_IDIOM_DELAYS:
                    out.append((kind, tx, rx, 2))
    return out


def key(cfg):
    kind, tx, rx, ctxs = cfg
    return f"{kind}/tx={tx},rx={rx}/ctx={ctxs}"


def is_mailbox(cfg):
    return has_payload(cfg)


def is_coro(cfg):
    return cfg[0].endswith(("coro", "with")) or is_idiom(cfg)


def render_pair(cfg):
    ports = "    clk = Port.input(Bit)\n"
    decl = ""
    p = ""
    c = ""
    for i, (what, tx, rx) in enumerate(pair_members(cfg)):
        mb = what == "mailbox"
        ports += f"""    send_req{i} = Port.input(Bit)
    recv_rdy{i} = Port.input(Bit)
    p_clear{i} = Port.output(Bit, default=False)
    p_set{i} = Port.output(Bit, default=False)
    issued{i} = Port.output(Bit, default=False)
    c_set{i} = Port.output(Bit, default=False)
    c_clear{i} = Port.output(Bit, default=False)
    consumed{i} = Port.output(Bit, default=False)
"""
        if mb:
            ports += f"""    data{i} = Port.input(Bit)
    sent_data{i} = Port.output(Bit, default=False)
    got_data{i} = Port.output(Bit, default=False)
"""
        obj = f"std.Mailbox[Bit]({_kw(tx, rx)})" if mb else f"std.SyncFlag({_kw(tx, rx)})"
        decl += f"        x{i} = {obj}\n"
        send = f"x{i}.send(self.data{i})\n                self.sent_data{i} <<= self.data{i}" if mb else f"x{i}.set()"
        take = f"self.got_data{i} <<= x{i}.data()\n                x{i}.clear()" if mb else f"x{i}.clear()"
        p += f"""            self.issued{i} <<= False
            self.p_clear{i} <<= x{i}.is_clear()
            self.p_set{i} <<= x{i}.is_set()
            if self.send_req{i} and x{i}.is_clear():
                {send}
                self.issued{i} <<= True
"""
        c += f"""            self.consumed{i} <<= False
            self.c_set{i} <<= x{i}.is_set()
            self.c_clear{i} <<= x{i}.is_clear()
            if self.recv_rdy{i} and x{i}.is_set():
                {take}
                self.consumed{i} <<= True
"""
    return f"""{HEADER}

class T(cohdl.Entity):
{ports}
    def architecture(self):
        clk = std.Clock(self.clk)
{decl}
        @std.sequential(clk)
        def producer():
{p}
        @std.sequential(clk)
        def consumer():
{c}"""


def _kw(tx, rx):
    if tx == 0 and rx == 0:
        return ""
    if tx == rx:
        return f"delay={tx}"
    return f"tx_delay={tx}, rx_delay={rx}"


HEADER = """import cohdl
from cohdl import std, Bit, BitVector, Port, Null
"""


def render_idiom(cfg):
    kind, tx, rx, _ = cfg
    payload = has_payload(cfg)
    own_payload = kind.startswith("with_")            # SyncFlag + a payload signal of the wrapper
    mb = kind.startswith("mailbox")
    T = f"BitVector[{DATA_W}]"
    ports = """    clk = Port.input(Bit)
    send_req = Port.input(Bit)
    recv_rdy = Port.input(Bit)
    sent = Port.output(Bit, default=False)
    got = Port.output(Bit, default=False)
    dropped = Port.output(Bit, default=False)
    mark = Port.output(Bit, default=False)
"""
    for n in extra_inputs(cfg):
        ports += f"    {n} = Port.input(Bit)\n"
    if payload:
        ports += f"""    data = Port.input({T})
    sent_data = Port.output({T}, default=Null)
    got_data = Port.output({T}, default=Null)
"""
    obj = f"std.Mailbox[{T}]({_kw(tx, rx)})" if mb else f"std.SyncFlag({_kw(tx, rx)})"
    decl = f"        x = {obj}\n"
    if own_payload:
        decl += f"        payload = Signal[{T}](Null, name=\"payload\")\n"

    def ind(text, n):
        return "\n".join((" " * n + l if l else l) for l in text.split("\n"))

    # ---- the sending statement / the taking statement, at indentation 0
    if mb:
        send = "x.send(self.data)\nself.sent_data <<= self.data\nself.sent ^= True"
        take = "self.got_data <<= x.data()"
    elif own_payload:
        send = "payload.next = self.data\nx.set()\nself.sent_data <<= self.data\nself.sent ^= True"
        take = "self.got_data <<= payload"
    else:
        send = "x.set()\nself.sent ^= True"
        take = ""
    plain_producer = f"""        @std.sequential(clk)
        def producer():
            if self.send_req and x.is_clear():
{ind(send, 16)}
"""
    plain_consumer = f"""        @std.sequential(clk)
        def consumer():
            if self.recv_rdy and x.is_set():
{ind(take or "pass", 16)}
                x.clear()
                self.got ^= True
"""
    idiom = kind.split("_", 1)[1] if not own_payload else kind[5:]
    if idiom in ("chold_a", "chold_b"):
        orelse = "" if idiom == "chold_a" else "            else:\n                self.mark ^= True\n"
        cons = f"""        @std.sequential(clk)
        async def consumer():
            await x.is_set()
            if self.hold:
                await self.go
{orelse}{ind(take, 12)}
            self.got ^= True
            x.clear()
"""
        body = plain_producer + "\n" + cons
    elif idiom == "chold_c":
        recv = "self.got_data <<= await x.receive()" if mb else "await x.receive()"
        cons = f"""        @std.sequential(clk)
        async def consumer():
            if self.hold:
                await self.go
            {recv}
            self.got ^= True
"""
        body = plain_producer + "\n" + cons
    elif idiom == "phold_a":
        prod = f"""        @std.sequential(clk)
        async def producer():
            await self.send_req
            await x.is_clear()
            if self.hold:
                await self.go
{ind(send, 12)}
"""
        body = prod + "\n" + plain_consumer
    elif idiom in ("loop_a", "loop_c"):
        cont = "                continue\n" if idiom == "loop_c" else ""
        prod = f"""        @std.sequential(clk)
        async def producer():
            while True:
{ind(send, 16)}
                await x.is_clear()
{cont}"""
        body = prod + "\n" + plain_consumer
    elif idiom == "phold_b":
        prod = f"""        @std.sequential(clk)
        async def producer():
            if self.hold:
                await self.go
            await x.is_clear()
{ind(send, 12)}
"""
        body = prod + "\n" + plain_consumer
    else:
        helper = {
            "r0": """            async def take():
                async with x:
                    self.got_data <<= payload
""",
            "r1": """            async def take():
                async with x:
                    self.got_data <<= payload
                    return True
""",
            "r2": """            async def take():
                async with x:
                    if self.discard:
                        self.dropped ^= True
                        return False
                    self.got_data <<= payload
                return True
""",
            "r3": """            async def take():
                async with x:
                    if self.discard:
                        if self.discard2:
                            self.dropped ^= True
                            return False
                        self.mark ^= True
                    self.got_data <<= payload
                return True
""",
            "r4": """            async def take():
                async with x:
                    if self.discard:
                        self.dropped ^= True
                        return False
                    else:
                        self.got_data <<= payload
                        return True
""",
            "w1": """            async def take():
                async with x:
                    while self.discard2:
                        if self.discard:
                            self.dropped ^= True
                            return False
                    self.got_data <<= payload
                return True
""",
            "w2": """            async def take():
                async with x:
                    while self.discard2:
                        if self.discard:
                            self.dropped ^= True
                            return False
                        else:
                            self.mark ^= True
                    self.got_data <<= payload
                    return True
""",
            "f1": """            async def take():
                async with x:
                    for b in (self.discard, self.discard2):
                        if b:
                            self.dropped ^= True
                            return False
                    self.got_data <<= payload
                return True
""",
            "f2": """            async def take():
                async with x:
                    for b in (self.discard, self.discard2):
                        if b:
                            self.dropped ^= True
                            return False
                    else:
                        self.got_data <<= payload
                        return True
""",
            "n1": """            async def take():
                async with x:
                    while self.discard2:
                        for b in (self.discard,):
                            if b:
                                self.dropped ^= True
                                return False
                    self.got_data <<= payload
                return True
""",
            "n2": """            async def take():
                async with x:
                    while self.discard2:
                        while self.discard:
                            self.dropped ^= True
                            return False
                    self.got_data <<= payload
                return True
""",
            "a1": """            async def take():
                async with x:
                    while self.discard2:
                        self.mark ^= True
                    if self.discard:
                        self.dropped ^= True
                        return False
                    self.got_data <<= payload
                    return True
""",
        }
        helper = helper["r1" if idiom == "r1c" else idiom]
        if idiom == "r0":
            use = "            await take()\n            self.got ^= True\n"
        elif idiom == "r1":
            use = "            ok = await take()\n            if ok:\n                self.got ^= True\n"
        else:
            use = "            if await take():\n                self.got ^= True\n"
        # the helper is a local coroutine of architecture(): define it before the process
        helper = "\n".join(l[4:] for l in helper.split("\n"))
        cons = f"""{helper}
        @std.sequential(clk)
        async def consumer():
{use}"""
        body = plain_producer + "\n" + cons
    return f"""{HEADER}from cohdl import Signal


class T(cohdl.Entity):
{ports}
    def architecture(self):
        clk = std.Clock(self.clk)
{decl}
{body}
"""


def render(cfg):
    if is_idiom(cfg):
        return render_idiom(cfg)
    if is_pair(cfg):
        return render_pair(cfg)
    kind, tx, rx, ctxs = cfg
    mb = is_mailbox(cfg)
    if kind in CAP_KINDS:
        base = "flag" if kind == "flag_Cap" else "mailbox"
        src = _render_plain((base, tx, rx, 2))
        kw = _kw(tx, rx)
        if base == "flag":
            src = src.replace(f"x = std.SyncFlag({kw})", "x = std.SyncFlag(" + ", ".join(a for a in ('name="Req"', kw) if a) + ")")
        else:
            src = src.replace(f"        x = std.Mailbox[BitVector[{DATA_W}]]({kw})",
                              f"        with std.prefix(\"Link\"):\n            x = std.Mailbox[BitVector[{DATA_W}]]({kw})")
        src = src.replace("    def architecture(self):", "    o_set = Port.output(Bit, default=False)\n\n    def architecture(self):")
        return src + """
        @std.sequential(clk)
        def observer():
            self.o_set <<= x.is_set()
"""
    rec = kind.startswith("mailbox_rec:")
    if rec:
        src = _render_plain(cfg)
        form = kind.split(":")[1].replace("_coro", "")
        src = src.replace(f"std.Mailbox[BitVector[{DATA_W}]]", "std.Mailbox[Pk]")
        src = src.replace("x.send(self.data)", f"x.send({REC_FORMS[form]})")
        src = src.replace("self.got_data <<= x.data()", "r = x.data()\n                self.got_data <<= r.b @ r.a")
        src = src.replace("self.got_data <<= await x.receive()", "r = await x.receive()\n            self.got_data <<= r.b @ r.a")
        src = src.replace("\n\nclass T(cohdl.Entity):", "\n\nclass Pk(std.Record):\n    a: Bit\n    b: Bit\n\n\nclass T(cohdl.Entity):")
        return "from __future__ import annotations\n" + src
    return _render_plain(cfg)


def _render_plain(cfg):
    kind, tx, rx, ctxs = cfg
    mb = is_mailbox(cfg)
    obj = f"std.Mailbox[BitVector[{DATA_W}]]({_kw(tx, rx)})" if mb else f"std.SyncFlag({_kw(tx, rx)})"
    ports = """    clk = Port.input(Bit)
    send_req = Port.input(Bit)
    recv_rdy = Port.input(Bit)
"""
    if mb:
        ports += f"""    data = Port.input(BitVector[{DATA_W}])
    sent_data = Port.output(BitVector[{DATA_W}], default=Null)
    got_data = Port.output(BitVector[{DATA_W}], default=Null)
"""
    if is_coro(cfg):
        ports += """    sent = Port.output(Bit, default=False)
    saw_clear = Port.output(Bit, default=False)
    got = Port.output(Bit, default=False)
"""
        send = "x.send(self.data)\n            self.sent_data <<= self.data" if mb else "x.set()"
        prod = f"""        @std.sequential(clk)
        async def producer():
            await self.send_req
            {send}
            self.sent ^= True
            await x.is_clear()
            self.saw_clear ^= True
"""
        if kind == "flag_coro":
            recv = "await x.receive()"
        elif kind == "flag_with":
            recv = "async with x:\n                pass"
        else:
            recv = "self.got_data <<= await x.receive()"
        cons = f"""        @std.sequential(clk)
        async def consumer():
            await self.recv_rdy
            {recv}
            self.got ^= True
"""
        body = prod + "\n" + cons
    else:
        ports += """    p_clear = Port.output(Bit, default=False)
    p_set = Port.output(Bit, default=False)
    issued = Port.output(Bit, default=False)
    c_set = Port.output(Bit, default=False)
    c_clear = Port.output(Bit, default=False)
    consumed = Port.output(Bit, default=False)
"""
        gate = "self.send_req" if kind == "flag_force" else "self.send_req and x.is_clear()"
        send = "x.send(self.data)\n                self.sent_data <<= self.data" if mb else "x.set()"
        take = "self.got_data <<= x.data()\n                x.clear()" if mb else "x.clear()"
        p = f"""            self.issued <<= False
            self.p_clear <<= x.is_clear()
            self.p_set <<= x.is_set()
            if {gate}:
                {send}
                self.issued <<= True
"""
        c = f"""            self.consumed <<= False
            self.c_set <<= x.is_set()
            self.c_clear <<= x.is_clear()
            if self.recv_rdy and x.is_set():
                {take}
                self.consumed <<= True
"""
        if ctxs in (1, "1r"):
            first, second = (p, c) if ctxs == 1 else (c, p)
            body = f"""        @std.sequential(clk)
        def both():
{first}{second}"""
        else:
            body = f"""        @std.sequential(clk)
        def producer():
{p}
        @std.sequential(clk)
        def consumer():
{c}"""
    return f"""{HEADER}

class T(cohdl.Entity):
{ports}
    def architecture(self):
        clk = std.Clock(self.clk)
        x = {obj}

{body}
"""

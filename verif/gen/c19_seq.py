"""C19 operation sequences: value-returning fixed point operations applied to a `std.Variable` (or
`std.Signal`) that is assigned again before the results are used.

A *program* is (kind, A, qualifier, seq): a variable/signal v of format A, inputs a, b (raw bits), the fixed
prologue `v := A(a); r := A(a)`, then the letters of `seq`, then the epilogue that observes v, r and, when
they were produced, s (sum) and e (comparison).  Letters:

  ("take", T)   r = T(v)      T = value-returning operation, see take_ops()
  ("upd_b",)    v := A(b)
  ("upd_r",)    v := r        (only generated where r statically has format A)
  ("add",)      s = r + v
  ("eq",)       e = (r == v)  (only generated where r statically has format A)

Every operation result is a value: what r, s, e hold must not depend on later assignments to v.  The same
statement text is executed by CPython on a `std.Variable` holding constants (py) and inside a clocked
`std.sequential` process of a compiled entity (hw).
"""
from __future__ import annotations

from ..ref import c19_fixed as ref
from . import c19_fixed as g


def take_ops(A):
    """every value-returning operation with a (potential) shortcut path, for a value of format A=(l, r)"""
    l, r = A
    ops = []
    for rs in g.ROUNDS:
        for os_ in g.OVERFLOWS:
            ops.append(("resize", A, rs, os_))  # resize to the own format: the "nothing to do" path
    ops.append(("resize", A, None, None))  # ... default arguments, subscript form
    ops.append(("resize", (l + 1, r - 1), ref.TRUNCATE, ref.WRAP))  # pure extension
    if l - 1 >= r + 1:
        ops.append(("resize", (l - 1, r + 1), ref.TRUNCATE, ref.WRAP))  # both ends cut
    ops.append(("abs",))
    ops.append(("ctor", A))  # conversion between equal formats
    ops.append(("ctor", (l + 1, r - 1)))
    ops.append(("bits",))  # from_bits(to_bits(v))
    ops.append(("raw",))  # A(raw=v._val)
    ops.append(("value",))  # std.Value(v)
    ops.append(("addz",))  # v + 0
    ops.append(("subz",))  # v - 0
    return ops


def take_name(t):
    if t[0] == "resize":
        return f"resize[{t[1][0]}:{t[1][1]}]/{t[2] or 'default'}/{t[3] or 'default'}"
    if t[0] == "ctor":
        return f"ctor[{t[1][0]}:{t[1][1]}]"
    return t[0]


def static_fmt(take, A):
    """format of r after `take`, None when the implementation chooses it"""
    if take[0] in ("resize", "ctor"):
        return tuple(take[1])
    if take[0] in ("addz", "subz"):
        return None
    return A


def sequences(A, takes, max_len, letters=("upd_b", "upd_r", "add", "eq")):
    """all well-typed letter sequences of length 1..max_len over {take T : T in takes} + letters"""
    alphabet = [("take", t) for t in takes] + [(x,) for x in letters]
    out = []

    def rec(prefix, rfmt):
        if prefix:
            out.append(tuple(prefix))
        if len(prefix) == max_len:
            return
        for letter in alphabet:
            if letter[0] in ("upd_r", "eq") and rfmt != A:
                continue  # typing rule: assignment / comparison need equal formats
            nf = static_fmt(letter[1], A) if letter[0] == "take" else rfmt
            rec(prefix + [letter], nf)

    rec([], A)
    return out


def program_family(A, max_len, mixed_len=0):
    """One alphabet per take operation T: {take T, upd_b, upd_r, add, eq}, all sequences up to max_len
    (sequences shared between the alphabets are generated once); optionally all sequences up to mixed_len
    over the alphabet with every take operation."""
    seen = {}
    for t in take_ops(A):
        for s in sequences(A, [t], max_len):
            seen.setdefault(s, None)
    if mixed_len:
        for s in sequences(A, take_ops(A), mixed_len):
            seen.setdefault(s, None)
    return list(seen)


def seq_name(seq):
    return ";".join(take_name(l[1]) if l[0] == "take" else l[0] for l in seq)


def prog_key(kind, A, qual, seq):
    return f"seq/{qual}/{g.fmt_name(kind, A)}/{seq_name(seq)}"


def to_seq(x):
    def conv(e):
        return tuple(conv(i) for i in e) if isinstance(e, (list, tuple)) else e
    return conv(x)


# ------------------------------------------------------------------------------------------------
# statement text (shared by both levels)
# ------------------------------------------------------------------------------------------------

def take_expr(t, kind, A, v="v"):
    TA = g.type_expr(kind, A)
    if t[0] == "resize":
        if t[2] is None:
            return f"{v}.resize[{t[1][0]}:{t[1][1]}]()"
        return f"{v}.resize({t[1][0]}, {t[1][1]}, RS.{t[2]}, OS.{t[3]})"
    if t[0] == "abs":
        return f"abs({v})"
    if t[0] == "ctor":
        return f"{g.type_expr(kind, t[1])}({v})"
    if t[0] == "bits":
        return f"std.from_bits[{TA}](std.to_bits({v}))"
    if t[0] == "raw":
        return f"{TA}(raw={v}._val)"
    if t[0] == "value":
        return f"std.Value({v})"
    if t[0] == "addz":
        return f"({v} + {TA}(0))"
    if t[0] == "subz":
        return f"({v} - {TA}(0))"
    raise ValueError(t)


def body_lines(kind, A, seq, assign, xa, xb, sfx=""):
    """statements of one program in single-assignment form (cohdl does not allow re-binding a used local
    name); assign(target, expr) -> statement text storing into the variable/signal.
    -> (lines, final) where final maps register -> name holding its last value"""
    v = f"v{sfx}"
    cnt = {"r": 0, "s": 0, "e": 0}

    def fresh(reg):
        cnt[reg] += 1
        return f"{reg}{sfx}_{cnt[reg]}"

    r = fresh("r")
    final = {"v": v, "r": r}
    lines = [assign(v, xa), f"{r} = {xa}"]
    for letter in seq:
        k = letter[0]
        if k == "take":
            r = fresh("r")
            final["r"] = r
            lines.append(f"{r} = {take_expr(letter[1], kind, A, v)}")
        elif k == "upd_b":
            lines.append(assign(v, xb))
        elif k == "upd_r":
            lines.append(assign(v, r))
        elif k == "add":
            final["s"] = fresh("s")
            lines.append(f"{final['s']} = {r} + {v}")
        elif k == "eq":
            final["e"] = fresh("e")
            lines.append(f"{final['e']} = ({r} == {v})")
    return lines, final


def observed(seq):
    """registers the epilogue reads"""
    regs = ["v", "r"]
    if any(l[0] == "add" for l in seq):
        regs.append("s")
    if any(l[0] == "eq" for l in seq):
        regs.append("e")
    return regs


# ------------------------------------------------------------------------------------------------
# Python level
# ------------------------------------------------------------------------------------------------

_PY_HEADER = """from cohdl import std, BitVector, Signed, Unsigned
RS = std.FixedRoundStyle
OS = std.FixedOverflowStyle
"""


def py_program(kind, A, seq):
    """callable(xa, xb) -> dict register -> python object, executing the program on a fresh std.Variable"""
    TA = g.type_expr(kind, A)
    lines, final = body_lines(kind, A, seq, lambda tgt, ex: f"{tgt} @= {ex}", "xa", "xb")
    regs = observed(seq)
    src = _PY_HEADER + "def prog(xa, xb):\n"
    src += f"    v = std.Variable[{TA}]()\n"
    src += "".join(f"    {l}\n" for l in lines)
    src += "    return {" + ", ".join(f"'{x}': {final[x]}" for x in regs) + "}\n"
    ns = {}
    exec(compile(src, "<c19_seq>", "exec"), ns)
    return ns["prog"], src


# ------------------------------------------------------------------------------------------------
# compiled level
# ------------------------------------------------------------------------------------------------

def hw_source(kind, A, qual, progs, shapes):
    """One clocked entity running every program of `progs` (list of seq) in one process, each on its own
    variable/signal.  shapes[i][reg] = width of the raw bits of that register, None for a boolean."""
    TA = g.type_expr(kind, A)
    w = g.width(A)
    L = [
        "from cohdl import Entity, Port, Bit, BitVector, Signed, Unsigned",
        "from cohdl import std",
        "RS = std.FixedRoundStyle",
        "OS = std.FixedOverflowStyle",
        "",
        "class T(Entity):",
        "    clk = Port.input(Bit)",
        f"    a = Port.input(BitVector[{w}])",
        f"    b = Port.input(BitVector[{w}])",
    ]
    for i, seq in enumerate(progs):
        for reg in observed(seq):
            ww = shapes[i][reg]
            L.append(f"    o{i}_{reg} = Port.output({'Bit' if ww is None else f'BitVector[{ww}]'})")
    L += ["", "    def architecture(self):"]
    decl = "std.Variable" if qual == "var" else "std.Signal"
    for i in range(len(progs)):
        L.append(f"        v{i} = {decl}[{TA}]()")
    L += ["", "        @std.sequential(std.Clock(self.clk))", "        def logic():"]
    if qual == "var":
        assign = lambda tgt, ex: f"{tgt}.value = {ex}"
    else:
        assign = lambda tgt, ex: f"{tgt}.next = {ex}"
    # the two input values are read once; every program starts from these (immutable) temporaries
    L.append(f"            xa = std.from_bits[{TA}](self.a)")
    L.append(f"            xb = std.from_bits[{TA}](self.b)")
    xa, xb = "xa", "xb"
    for i, seq in enumerate(progs):
        lines, final = body_lines(kind, A, seq, assign, xa, xb, sfx=str(i))
        for l in lines:
            L.append("            " + l)
        for reg in observed(seq):
            if reg == "e":
                L.append(f"            self.o{i}_e <<= {final['e']}")
            else:
                L.append(f"            self.o{i}_{reg} <<= std.to_bits({final[reg]})")
    return "\n".join(L) + "\n"

"""The pyeval probe shared by all generated C10 modules of one process.

Defined once per process on purpose: every `cohdl.pyeval` decoration appends to a process-wide list inside
cohdl that is scanned linearly on each call conversion, so one probe per generated module would make a
long-running worker quadratic."""
import cohdl

got = []


@cohdl.pyeval
def probe(i, x):
    got.append((i, x))

"""C17: render an abstract type composition as a real CoHDL module (source text).

The module defines
  * the generated classes (std.Record / templated / inherited, std.Enum, BitField),
  * TYPE                      the composed type object
  * observe(obj) -> list      leaf objects in the order of ref.c17_layout.views(T)
  * build(P) -> object        a value constructed with the *constructors* from the list of part values P
                              (order of ref.c17_layout.parts(T)), not with from_bits
  * entity RT_<q>             run-time round trip wrapper, one per qualifier variant:
                                inp -> from_bits[T] -> leaves on ports, to_bits -> ser
  * entity CT                 the same on compile-time constants inside a synthesisable context
  * entity BW                 (bit fields only) one variable copy of inp per assignable member,
                              member assigned from an input port, whole vector on an output port
"""
from __future__ import annotations

from ..ref import c17_layout as L

HEADER = '''from __future__ import annotations
import cohdl
from cohdl import std, Bit, BitVector, Unsigned, Signed, Array, Boolean, Port, Null, Full
from cohdl.std.bitfield import BitField, Field


class WArg(int):
    pass


def _bs(v, w):
    return format(v, "0%db" % w)


def _sg(v, w):
    return v - (1 << w) if v >> (w - 1) else v


def _en(cls, members, raw_int, raw_obj):
    """declared enumerator if there is one with this raw value, else the documented _unsafe_init_"""
    if raw_int in members:
        return getattr(cls, "m%d" % members.index(raw_int))
    return cls._unsafe_init_(raw_obj)

'''

QUALIFIERS = {
    "value": "",                      # default qualifier (std.Value)
    "temporary": ", std.Temporary",
    "signal": ", std.Signal",
    "ref": ", std.Ref",               # documented to work only for trivially serialisable types
    "variable": ", std.Variable",     # inside a (clock-less) std.sequential process
}


class Renderer:
    def __init__(self, T):
        self.T = T
        self.defs = []          # class definition source blocks, in dependency order
        self.names = {}         # node -> class name
        self.n = 0
        self.bases = []         # non-empty base classes of inherited records (serialisable on their own)

    # ---- type expressions ------------------------------------------------------------------
    def _new(self, prefix):
        self.n += 1
        return f"{prefix}{self.n}"

    def prim_expr(self, T):
        k = T[0]
        if k == "bit":
            return "Bit"
        if k == "bool":
            return "bool"
        if k == "bv":
            return f"BitVector[{T[1]}]"
        if k == "u":
            return f"Unsigned[{T[1]}]"
        if k == "s":
            return f"Signed[{T[1]}]"
        if k == "bvW":
            return "BitVector[WArg]"
        if k == "uW":
            return "Unsigned[WArg]"
        if k == "sW":
            return "Signed[WArg]"
        return None

    def texpr(self, T):
        p = self.prim_expr(T)
        if p is not None:
            return p
        k = T[0]
        if k == "enum":
            return self._enum(T)
        if k == "sfix":
            return f"std.SFixed[{T[1]}:{T[2]}]"
        if k == "ufix":
            return f"std.UFixed[{T[1]}:{T[2]}]"
        if k == "carr":
            return f"Array[{self.texpr(T[1])}, {T[2]}]"
        if k == "sarr":
            return f"std.Array[{self.texpr(T[1])}, {T[2]}]"
        if k == "rec":
            return self._rec(T)
        if k == "trec":
            return f"{self._trec(T[1])}[{T[2]}]"
        if k == "trecW":
            return f"{self._trec(T[1])}[WArg]"
        if k == "bf":
            return self._bf(T)
        if k == "ser":
            return f"std.Serialized[{self.texpr(T[1])}]"
        raise ValueError(T)

    def _lit(self, under, raw):
        k = under[0]
        if k == "bit":
            return f"Bit({bool(raw)})"
        if k == "bv":
            return '"' + format(raw, f"0{under[1]}b") + '"'
        if k == "u":
            return str(raw)
        if k == "s":
            return str(L.signed_of(raw, under[1]))
        raise ValueError(under)

    def _enum(self, T):
        if T in self.names:
            return self.names[T]
        name = self._new("E")
        base = "std.FlagEnum" if T[1] else "std.Enum"
        lines = [f"class {name}({base}[{self.texpr(T[2])}]):"]
        for i, m in enumerate(T[3]):
            lines.append(f"    m{i} = {self._lit(T[2], m)}")
        self.defs.append("\n".join(lines))
        self.names[T] = name
        return name

    def _rec(self, T):
        if T in self.names:
            return self.names[T]
        fields, split = T[1], T[2]
        fexprs = [self.texpr(f) for f in fields]
        name = self._new("R")
        idx = 0
        base = "std.Record"
        for lvl, cnt in enumerate(split):
            cname = name if lvl == len(split) - 1 else f"{name}_b{lvl}"
            lines = [f"class {cname}({base}):"]
            if cnt == 0:
                lines.append("    pass")
            for _ in range(cnt):
                lines.append(f"    f{idx}: {fexprs[idx]}")
                idx += 1
            self.defs.append("\n".join(lines))
            if lvl < len(split) - 1 and idx > 0:
                self.bases.append(cname)
            base = cname
        self.names[T] = name
        return name

    def _trec(self, fields):
        key = ("trecdef", fields)
        if key in self.names:
            return self.names[key]
        fexprs = [self.texpr(f) for f in fields]
        name = self._new("TR")
        lines = [f"class {name}(std.Record[WArg]):"]
        for i, fe in enumerate(fexprs):
            lines.append(f"    f{i}: {fe}")
        self.defs.append("\n".join(lines))
        self.names[key] = name
        return name

    def _bf(self, T):
        if T in self.names:
            return self.names[T]
        lines = []
        for i, f in enumerate(T[2]):
            if f[0] == "fb":
                lines.append(f"    f{i}: Field[{f[1]}]")
            elif f[0] == "fv":
                suffix = {"bv": "", "u": ".Unsigned", "s": ".Signed"}[f[3]]
                lines.append(f"    f{i}: Field[{f[1]}:{f[2]}]{suffix}")
            else:
                inner = self._bf(f[1])
                if f[3]:
                    lines.append(f"    f{i}: {inner}[{f[2] + f[1][1] - 1}:{f[2]}]")
                else:
                    lines.append(f"    f{i}: {inner}[{f[2]}]")
        name = self._new("B")
        self.defs.append("\n".join([f"class {name}(BitField[{T[1]}]):"] + lines))
        self.names[T] = name
        return name

    # ---- observation: statements + one expression per view ----------------------------------
    def observe(self, T, root="obj", tmp="_e"):
        """returns (stmts, exprs): exprs[i] reads view i of ref.views(T)"""
        stmts, exprs = [], []
        self._tmp = 0

        def walk(T, e):
            T = L.resolve(T)
            k = T[0]
            if k in ("bit", "bool", "bv", "u", "s", "sfix", "ufix"):
                exprs.append(e)
            elif k == "enum":
                exprs.append(e + ".raw")
            elif k == "carr":
                for i in range(T[2]):
                    walk(T[1], f"{e}[{i}]")
            elif k == "sarr":
                for i in range(T[2]):
                    self._tmp += 1
                    v = f"{tmp}{self._tmp}"
                    stmts.append(f"{v} = {e}.get_elem({i}, std.Value)")
                    walk(T[1], v)
            elif k == "rec":
                for i, f in enumerate(T[1]):
                    walk(f, f"{e}.f{i}")
            elif k == "bf":
                for i, f in enumerate(T[2]):
                    if f[0] == "sub":
                        walk(f[1], f"{e}.f{i}")
                    else:
                        exprs.append(f"{e}.f{i}")
            elif k == "ser":
                self._tmp += 1
                v = f"{tmp}{self._tmp}"
                stmts.append(f"{v} = {e}.value()")
                walk(T[1], v)
            else:
                raise ValueError(T)

        walk(T, root)
        return stmts, exprs

    # ---- construction from part values ------------------------------------------------------
    def build_expr(self, T):
        """expression over list P (part values, order of ref.parts) that constructs a value of T with the
        documented constructors (never with from_bits)"""
        counter = [0]

        def nxt():
            i = counter[0]
            counter[0] += 1
            return i

        def scalar(k, w, i):
            if k == "bit":
                return f"Bit(bool(P[{i}]))"
            if k == "bool":
                return f"bool(P[{i}])"
            if k == "bv":
                return f"BitVector[{w}](_bs(P[{i}], {w}))"
            if k == "u":
                return f"Unsigned[{w}](P[{i}])"
            if k == "s":
                return f"Signed[{w}](_sg(P[{i}], {w}))"
            raise ValueError(k)

        def walk(T, W):
            k = T[0]
            if k in ("bvW", "uW", "sW"):
                R = L.resolve(T, W)
                return scalar(R[0], R[1], nxt())
            if k in ("bit", "bool", "bv", "u", "s"):
                return scalar(k, L.width(T), nxt())
            te = self._texpr_w(T, W)
            if k == "enum":
                i = nxt()
                return f"_en({te}, {T[3]!r}, P[{i}], {scalar(T[2][0], L.width(T), i)})"
            if k == "sfix":
                i = nxt()
                return f"{te}(_sg(P[{i}], {L.width(T)}) * 2.0**{T[2]})"
            if k == "ufix":
                i = nxt()
                return f"{te}(P[{i}] * 2.0**{T[2]})"
            if k == "carr":
                elems = [walk(T[1], W) for _ in range(T[2])]
                return f"{te}([{', '.join(elems)}])"
            if k == "sarr":
                elems = [walk(T[1], W) for _ in range(T[2])]
                return f"{te}([{', '.join(elems)}], _qualifier_=std.Value)"
            if k == "rec":
                args = [f"f{j}=" + walk(f, W) for j, f in enumerate(T[1])]
                return f"{te}({', '.join(args)})"
            if k in ("trec", "trecW"):
                w = T[2] if k == "trec" else W
                args = [f"f{j}=" + walk(f, w) for j, f in enumerate(T[1])]
                return f"{te}({', '.join(args)})"
            if k == "bf":
                i = nxt()
                return f"{te}(BitVector[{T[1]}](_bs(P[{i}], {T[1]})))"
            if k == "ser":
                return f"{te}({walk(T[1], W)})"
            raise ValueError(T)

        return walk(T, None)

    def _texpr_w(self, T, W):
        """type expression with the template argument substituted by the concrete W"""
        if W is None:
            return self.texpr(T)
        k = T[0]
        if k in ("bvW", "uW", "sW"):
            return self.texpr(L.resolve(T, W))
        if k == "trecW":
            return f"{self._trec(T[1])}[{W}]"
        if k in ("carr", "sarr"):
            pre = "Array" if k == "carr" else "std.Array"
            return f"{pre}[{self._texpr_w(T[1], W)}, {T[2]}]"
        return self.texpr(T)

    # ---- ports for views -------------------------------------------------------------------
    @staticmethod
    def port_type(v):
        if v.kind in ("bit", "bool"):
            return "Bit"
        if v.kind == "bv":
            return f"BitVector[{v.w}]"
        if v.kind == "u":
            return f"Unsigned[{v.w}]"
        if v.kind == "s":
            return f"Signed[{v.w}]"
        raise ValueError(v)

    def leaf_ports(self, vs, prefix):
        """[(port name, port type, view index, fixed-candidate-raw | None)]"""
        out = []
        for i, v in enumerate(vs):
            if v.kind in ("sfix", "ufix"):
                for raw in range(1 << v.w):
                    out.append((f"{prefix}{i}_k{raw}", "Bit", i, raw))
            else:
                out.append((f"{prefix}{i}", self.port_type(v), i, None))
        return out

    def leaf_assigns(self, vs, exprs, prefix, indent):
        lines = []
        for i, v in enumerate(vs):
            if v.kind in ("sfix", "ufix"):
                l, r = v.meta
                for raw in range(1 << v.w):
                    num = L.fixed_number(v.kind, l, r, raw)
                    lines.append(f"{indent}self.{prefix}{i}_k{raw} <<= ({exprs[i]} == {num!r})")
            else:
                lines.append(f"{indent}self.{prefix}{i} <<= {exprs[i]}")
        return lines

    # ---- whole module ----------------------------------------------------------------------
    def module(self, qualifiers=("value",), ct_patterns=(), with_bw=True):
        T = self.T
        w = L.width(T)
        vs = L.views(T)
        is_ser = T[0] == "ser"
        texpr = self.texpr(T)
        stmts, exprs = self.observe(T)
        paths_ok = len(exprs) == len(vs)
        assert paths_ok, (T, exprs, vs)
        build = self.build_expr(T)

        src = [HEADER]
        body = []

        body.append(f"TYPE = {texpr}")
        body.append("BASES = [" + ", ".join(self.bases) + "]")
        body.append(f"WIDTH = {w}")
        body.append("")
        body.append("def observe(obj):")
        for s in stmts:
            body.append("    " + s)
        body.append("    return [" + ", ".join(exprs) + "]")
        body.append("")
        body.append("def build(P):")
        body.append(f"    return {build}")
        body.append("")

        def from_bits_expr(arg, qual):
            if is_ser:
                # Serialized[T]: documented entry points are from_raw(bits) / bits() / value()
                return f"TYPE.from_raw({arg})"
            return f"std.from_bits[TYPE]({arg}{QUALIFIERS[qual]})"

        to_bits_expr = "obj.bits()" if is_ser else "std.to_bits(obj)"

        # run-time wrappers
        for q in qualifiers:
            lp = self.leaf_ports(vs, "l")
            body.append(f"class RT_{q}(cohdl.Entity):")
            body.append(f"    inp = Port.input(BitVector[{w}])")
            body.append(f"    ser = Port.output(BitVector[{w}])")
            if is_ser:
                body.append(f"    ser2 = Port.output(BitVector[{w}])")
            for name, pt, _, _ in lp:
                body.append(f"    {name} = Port.output({pt})")
            body.append("")
            body.append("    def architecture(self):")
            body.append("        @std.sequential" if q == "variable" else "        @std.concurrent")
            body.append("        def logic():")
            body.append(f"            obj = {from_bits_expr('self.inp', q)}")
            for s in stmts:
                body.append("            " + s)
            body += self.leaf_assigns(vs, exprs, "l", "            ")
            body.append(f"            self.ser <<= {to_bits_expr}")
            if is_ser:
                inner = self.texpr(T[1])
                body.append(f"            x2 = std.from_bits[{inner}](self.inp)")
                body.append("            self.ser2 <<= TYPE(x2).bits()")
            body.append("")

        # constants inside a synthesisable context
        if ct_patterns:
            body.append("class CT(cohdl.Entity):")
            body.append("    dummy = Port.input(Bit)")
            for ci, _ in enumerate(ct_patterns):
                body.append(f"    c{ci}_ser = Port.output(BitVector[{w}])")
                for name, pt, _, _ in self.leaf_ports(vs, f"c{ci}_l"):
                    body.append(f"    {name} = Port.output({pt})")
            body.append("")
            body.append("    def architecture(self):")
            body.append("        @std.concurrent")
            body.append("        def logic():")
            for ci, pat in enumerate(ct_patterns):
                const = f'BitVector[{w}]("{format(pat, f"0{w}b")}")'
                cst, cex = self.observe(T, f"obj{ci}", f"_c{ci}e")
                body.append(f"            obj{ci} = {from_bits_expr(const, 'value')}")
                for s in cst:
                    body.append("            " + s)
                body += self.leaf_assigns(vs, cex, f"c{ci}_l", "            ")
                body.append(f"            self.c{ci}_ser <<= {to_bits_expr.replace('obj', f'obj{ci}')}")
            body.append("")

        # bit field write wrapper
        if with_bw and T[0] == "bf":
            wr = L.bf_write_ranges(T)
            body.append("class BW(cohdl.Entity):")
            body.append(f"    inp = Port.input(BitVector[{w}])")
            for i, (p, lo, fw) in enumerate(wr):
                kind = self._bf_member_kind(T, p)
                pt = {"bit": "Bit", "bv": f"BitVector[{fw}]", "u": f"Unsigned[{fw}]", "s": f"Signed[{fw}]"}[kind]
                body.append(f"    v{i} = Port.input({pt})")
                body.append(f"    o{i} = Port.output(BitVector[{w}])")
            body.append("")
            body.append("    def architecture(self):")
            body.append("        @std.sequential")
            body.append("        def proc():")
            for i, (p, lo, fw) in enumerate(wr):
                body.append(f"            b{i} = std.from_bits[TYPE](self.inp, std.Variable)")
                body.append(f"            b{i}{p} @= self.v{i}")
                body.append(f"            self.o{i} <<= std.to_bits(b{i})")
            body.append("")

        src.append("\n\n".join(self.defs))
        src.append("\n\n")
        src.append("\n".join(body))
        return "".join(src)

    @staticmethod
    def _bf_member_kind(T, path):
        node = T
        parts = [p for p in path.split(".") if p]
        for j, p in enumerate(parts):
            f = node[2][int(p[1:])]
            if f[0] == "sub":
                if j == len(parts) - 1:
                    return "bv"     # a whole sub bit field is assigned from a BitVector
                node = f[1]
            elif f[0] == "fb":
                return "bit"
            else:
                return f[3]
        raise ValueError(path)


def ct_patterns_for(w):
    """constants checked inside a synthesisable context: all patterns for w <= 3; otherwise the position-code
    patterns: bit i of pattern j = bit j of (i + 1), with enough patterns that no position has the all-zero or
    all-one code.  Any two bit positions differ in some pattern and every position differs from constant 0 / 1, so
    every misplaced / dropped / duplicated / stuck bit of a layout shows (fixed structural set, not sampled)"""
    if w <= 3:
        return tuple(range(1 << w))
    k = 1
    while (1 << k) - 1 <= w:      # codes 1..w must avoid 2**k - 1
        k += 1
    return tuple(sum(1 << i for i in range(w) if ((i + 1) >> j) & 1) for j in range(k))

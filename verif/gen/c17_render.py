"""C17: render an abstract type composition as a real CoHDL module (source text).

The module defines
  * the generated classes (std.Record / templated / inherited, std.Enum, BitField),
  * TYPE                      the composed type object
  * observe(obj) -> list      leaf objects in the order of ref.c17_layout.views(T)
  * build(P) -> object        a value constructed with the *constructors* from the list of part values P
                              (order of ref.c17_layout.parts(T)), not with from_bits
  * entity RT_<q>             run-time round trip wrapper, one per qualifier variant:
                                inp -> from_bits[T] -> leaves on ports, to_bits -> ser
  * entity CT                 the same on compile-time constants inside a synthesisable context
  * entity BW                 (bit fields only) one variable copy of inp per assignable member,
                              member assigned from an input port, whole vector on an output port
"""
from __future__ import annotations

import itertools

from ..ref import c17_layout as L


RECORDS = ("rec", "trec", "trecW", "ttrec")


def ctor_forms(n):
    """every way the check constructs a record of n fields with its constructor:
    ("pk", k, perm): the first k fields positional, the others as keywords in the order `perm`
                     (k = 0: all keywords, every permutation; k = n: all positional)
    ("copy", perm):  copy constructor applied to an all-keyword instance built in order `perm`"""
    out = []
    for k in range(0, n + 1):
        for perm in itertools.permutations(range(k, n)):
            out.append(("pk", k, perm))
    for perm in (tuple(range(n)), tuple(reversed(range(n)))):
        if ("copy", perm) not in out:
            out.append(("copy", perm))
    return out


def form_name(form):
    if form[0] == "pk":
        return f"p{form[1]}k{''.join(map(str, form[2]))}"
    return f"copy{''.join(map(str, form[1]))}"


def n_forms(T):
    """number of construction forms needed so that every record node of T is built in each of its forms"""
    k = T[0]
    best = 0
    if k in RECORDS:
        best = len(ctor_forms(len(T[1])))
        for f in T[1]:
            best = max(best, n_forms(f))
        if k == "ttrec":
            for a in T[2]:
                best = max(best, n_forms(a))
    elif k in ("carr", "sarr", "ser"):
        best = n_forms(T[1])
    return best


def first_record_arity(T):
    k = T[0]
    if k in RECORDS:
        return len(T[1])
    if k in ("carr", "sarr", "ser"):
        return first_record_arity(T[1])
    return 0


def reduced_form_indices(T):
    """the four most different construction forms (besides form 0 = keywords in declaration order):
    all positional, all keywords reversed, one positional + the rest reversed, copy of a reversed-keyword instance"""
    n = first_record_arity(T)
    if n == 0:
        return []
    forms = ctor_forms(n)
    rev = tuple(reversed(range(n)))
    want = [("pk", n, ()), ("pk", 0, rev), ("pk", 1, tuple(reversed(range(1, n)))), ("copy", rev)]
    out = []
    for f in want:
        j = forms.index(f)
        if j != 0 and j not in out:
            out.append(j)
    return sorted(out)


AD_ATOMS = ("bit", "bool", "bv", "u", "s", "enum", "sfix", "ufix")


def ad_eligible(T):
    """compositions of plain records, core cohdl.Array and atoms that contain at least one cohdl.Array:
    these get the array construction-form (partial default list) wrapper"""
    def ok(T):
        k = T[0]
        if k in AD_ATOMS:
            return True
        if k == "carr":
            return ok(T[1])
        if k == "rec":
            return all(ok(f) for f in T[1])
        return False

    def has(T):
        return T[0] == "carr" or (T[0] == "rec" and any(has(f) for f in T[1]))

    return T[0] in ("carr", "rec") and ok(T) and has(T)


def ad_forms(n):
    """construction forms of a cohdl.Array with n elements: a default list with k = 0..n elements, no argument,
    Null, Full"""
    return [("d", k) for k in range(n + 1)] + [("none",), ("null",), ("full",)]


def ad_nforms(T):
    k = T[0]
    if k == "carr":
        return max(len(ad_forms(T[2])), ad_nforms(T[1]))
    if k == "rec":
        return max([ad_nforms(f) for f in T[1]] + [0])
    return 0


def apply_form(te, args, form):
    """constructor call text for type expression te, argument texts args (declared order)"""
    if form[0] == "pk":
        k, perm = form[1], form[2]
        parts = list(args[:k]) + [f"f{j}={args[j]}" for j in perm]
        return f"{te}({', '.join(parts)})"
    inner = ", ".join(f"f{j}={args[j]}" for j in form[1])
    return f"{te}({te}({inner}))"

HEADER = '''from __future__ import annotations
import cohdl
from cohdl import std, Bit, BitVector, Unsigned, Signed, Array, Boolean, Port, Null, Full
from cohdl.std.bitfield import BitField, Field


class WArg(int):
    pass


def _bs(v, w):
    return format(v, "0%db" % w)


def _sg(v, w):
    return v - (1 << w) if v >> (w - 1) else v


def _en(cls, members, raw_int, raw_obj):
    """declared enumerator if there is one with this raw value, else the documented _unsafe_init_"""
    if raw_int in members:
        return getattr(cls, "m%d" % members.index(raw_int))
    return cls._unsafe_init_(raw_obj)

'''

QUALIFIERS = {
    "value": "",                      # default qualifier (std.Value)
    "temporary": ", std.Temporary",
    "signal": ", std.Signal",
    "ref": ", std.Ref",               # documented to work only for trivially serialisable types
    "variable": ", std.Variable",     # inside a (clock-less) std.sequential process
}


class Renderer:
    def __init__(self, T):
        self.T = T
        self.defs = []          # class definition source blocks, in dependency order
        self.names = {}         # node -> class name
        self.n = 0
        self.bases = []         # non-empty base classes of inherited records (serialisable on their own)
        self.base_of = {}       # record node -> [(base type expression, number of fields)]

    # ---- type expressions ------------------------------------------------------------------
    def _new(self, prefix):
        self.n += 1
        return f"{prefix}{self.n}"

    def prim_expr(self, T):
        k = T[0]
        if k == "bit":
            return "Bit"
        if k == "bool":
            return "bool"
        if k == "bv":
            return f"BitVector[{T[1]}]"
        if k == "u":
            return f"Unsigned[{T[1]}]"
        if k == "s":
            return f"Signed[{T[1]}]"
        if k == "bvW":
            return "BitVector[WArg]"
        if k == "uW":
            return "Unsigned[WArg]"
        if k == "sW":
            return "Signed[WArg]"
        return None

    def texpr(self, T):
        p = self.prim_expr(T)
        if p is not None:
            return p
        k = T[0]
        if k == "enum":
            return self._enum(T)
        if k == "sfix":
            return f"std.SFixed[{T[1]}:{T[2]}]"
        if k == "ufix":
            return f"std.UFixed[{T[1]}:{T[2]}]"
        if k == "carr":
            return f"Array[{self.texpr(T[1])}, {T[2]}]"
        if k == "sarr":
            return f"std.Array[{self.texpr(T[1])}, {T[2]}]"
        if k == "rec":
            return self._rec(T)
        if k == "trec":
            split = T[3] if len(T) > 3 else None
            name = self._trec(T[1], split)
            self._note_bases(T, name, f"[{T[2]}]", split)
            return f"{name}[{T[2]}]"
        if k == "trecW":
            return f"{self._trec(T[1])}[WArg]"
        if k == "ttrec":
            name = self._ttrec(T)
            arg = "[" + ", ".join(self.texpr(a) for a in T[2]) + "]"
            self._note_bases(T, name, arg, T[3])
            return name + arg
        if k == "bf":
            return self._bf(T)
        if k == "ser":
            return f"std.Serialized[{self.texpr(T[1])}]"
        raise ValueError(T)

    def _lit(self, under, raw):
        k = under[0]
        if k == "bit":
            return f"Bit({bool(raw)})"
        if k == "bv":
            return '"' + format(raw, f"0{under[1]}b") + '"'
        if k == "u":
            return str(raw)
        if k == "s":
            return str(L.signed_of(raw, under[1]))
        raise ValueError(under)

    def _enum(self, T):
        if T in self.names:
            return self.names[T]
        name = self._new("E")
        base = "std.FlagEnum" if T[1] else "std.Enum"
        lines = [f"class {name}({base}[{self.texpr(T[2])}]):"]
        for i, m in enumerate(T[3]):
            lines.append(f"    m{i} = {self._lit(T[2], m)}")
        self.defs.append("\n".join(lines))
        self.names[T] = name
        return name

    def _rec(self, T):
        if T in self.names:
            return self.names[T]
        fields, split = T[1], T[2]
        fexprs = [self.texpr(f) for f in fields]
        name = self._new("R")
        idx = 0
        base = "std.Record"
        for lvl, cnt in enumerate(split):
            cname = name if lvl == len(split) - 1 else f"{name}_b{lvl}"
            lines = [f"class {cname}({base}):"]
            if cnt == 0:
                lines.append("    pass")
            for _ in range(cnt):
                lines.append(f"    f{idx}: {fexprs[idx]}")
                idx += 1
            self.defs.append("\n".join(lines))
            base = cname
        self.names[T] = name
        self._note_bases(T, name, "", split)
        return name

    def _note_bases(self, T, name, arg, split):
        """remember the non-empty proper base classes of record node T: (type expression, number of fields)"""
        if not split or len(split) < 2 or T in self.base_of:
            return
        out, acc = [], 0
        for lvl, cnt in enumerate(split[:-1]):
            acc += cnt
            if acc > 0:
                out.append((f"{name}_b{lvl}{arg}", acc))
        self.base_of[T] = out
        for e, _ in out:
            if e not in self.bases:
                self.bases.append(e)

    def _chain(self, name, root_base, fexprs, split):
        """class definitions for a (templated) record whose declarations inherit from each other"""
        split = split or (len(fexprs),)
        idx = 0
        base = root_base
        for lvl, cnt in enumerate(split):
            cname = name if lvl == len(split) - 1 else f"{name}_b{lvl}"
            lines = [f"class {cname}({base}):"]
            if cnt == 0:
                lines.append("    pass")
            for _ in range(cnt):
                lines.append(f"    f{idx}: {fexprs[idx]}")
                idx += 1
            self.defs.append("\n".join(lines))
            base = cname

    def _trec(self, fields, split=None):
        if split is not None and len(split) == 1:
            split = None
        key = ("trecdef", fields, split)
        if key in self.names:
            return self.names[key]
        fexprs = [self.texpr(f) for f in fields]
        name = self._new("TR")
        self._chain(name, "std.Record[WArg]", fexprs, split)
        self.names[key] = name
        return name

    def _ttrec(self, T):
        key = ("ttrecdef", T[1], len(T[2]), T[3])
        if key in self.names:
            return self.names[key]
        arg = self._new("TA")
        self.defs.append("\n".join([f"@std.TemplateArg", f"class {arg}:"] + [f"    t{i}: type" for i in range(len(T[2]))]))
        fexprs = [f"{arg}.t{f[1]}" if f[0] == "tp" else self.texpr(f) for f in T[1]]
        name = self._new("TT")
        self._chain(name, f"std.Record[{arg}]", fexprs, T[3])
        self.names[key] = name
        return name

    def _bf(self, T):
        if T in self.names:
            return self.names[T]
        lines = []
        for i, f in enumerate(T[2]):
            if f[0] == "fb":
                lines.append(f"    f{i}: Field[{f[1]}]")
            elif f[0] == "fv":
                suffix = {"bv": "", "u": ".Unsigned", "s": ".Signed"}[f[3]]
                lines.append(f"    f{i}: Field[{f[1]}:{f[2]}]{suffix}")
            else:
                inner = self._bf(f[1])
                if f[3]:
                    lines.append(f"    f{i}: {inner}[{f[2] + f[1][1] - 1}:{f[2]}]")
                else:
                    lines.append(f"    f{i}: {inner}[{f[2]}]")
        name = self._new("B")
        self.defs.append("\n".join([f"class {name}(BitField[{T[1]}]):"] + lines))
        self.names[T] = name
        return name

    # ---- observation: statements + one expression per view ----------------------------------
    def observe(self, T, root="obj", tmp="_e"):
        """returns (stmts, exprs): exprs[i] reads view i of ref.views(T)"""
        stmts, exprs = [], []
        self._tmp = 0

        def walk(T, e):
            T = L.resolve(T)
            k = T[0]
            if k in ("bit", "bool", "bv", "u", "s", "sfix", "ufix"):
                exprs.append(e)
            elif k == "enum":
                exprs.append(e + ".raw")
            elif k == "carr":
                for i in range(T[2]):
                    walk(T[1], f"{e}[{i}]")
            elif k == "sarr":
                for i in range(T[2]):
                    self._tmp += 1
                    v = f"{tmp}{self._tmp}"
                    stmts.append(f"{v} = {e}.get_elem({i}, std.Value)")
                    walk(T[1], v)
            elif k == "rec":
                for i, f in enumerate(T[1]):
                    walk(f, f"{e}.f{i}")
            elif k == "bf":
                for i, f in enumerate(T[2]):
                    if f[0] == "sub":
                        walk(f[1], f"{e}.f{i}")
                    else:
                        exprs.append(f"{e}.f{i}")
            elif k == "ser":
                self._tmp += 1
                v = f"{tmp}{self._tmp}"
                stmts.append(f"{v} = {e}.value()")
                walk(T[1], v)
            else:
                raise ValueError(T)

        walk(T, root)
        return stmts, exprs

    # ---- construction from part values ------------------------------------------------------
    def build_expr(self, T, form_index=0):
        """expression over list P (part values, order of ref.parts) that constructs a value of T with the
        documented constructors (never with from_bits).  Every record node with n fields is constructed in form
        ctor_forms(n)[form_index % len(ctor_forms(n))]; form 0 = all keywords in declaration order."""
        counter = [0]

        def nxt():
            i = counter[0]
            counter[0] += 1
            return i

        def scalar(k, w, i):
            if k == "bit":
                return f"Bit(bool(P[{i}]))"
            if k == "bool":
                return f"bool(P[{i}])"
            if k == "bv":
                return f"BitVector[{w}](_bs(P[{i}], {w}))"
            if k == "u":
                return f"Unsigned[{w}](P[{i}])"
            if k == "s":
                return f"Signed[{w}](_sg(P[{i}], {w}))"
            raise ValueError(k)

        def record(te, args):
            forms = ctor_forms(len(args))
            return apply_form(te, args, forms[form_index % len(forms)])

        def walk(T, W):
            k = T[0]
            if k in ("bvW", "uW", "sW"):
                R = L.resolve(T, W)
                return scalar(R[0], R[1], nxt())
            if k in ("bit", "bool", "bv", "u", "s"):
                return scalar(k, L.width(T), nxt())
            te = self._texpr_w(T, W)
            if k == "enum":
                i = nxt()
                return f"_en({te}, {T[3]!r}, P[{i}], {scalar(T[2][0], L.width(T), i)})"
            if k == "sfix":
                i = nxt()
                return f"{te}(_sg(P[{i}], {L.width(T)}) * 2.0**{T[2]})"
            if k == "ufix":
                i = nxt()
                return f"{te}(P[{i}] * 2.0**{T[2]})"
            if k == "carr":
                elems = [walk(T[1], W) for _ in range(T[2])]
                return f"{te}([{', '.join(elems)}])"
            if k == "sarr":
                elems = [walk(T[1], W) for _ in range(T[2])]
                return f"{te}([{', '.join(elems)}], _qualifier_=std.Value)"
            if k == "rec":
                return record(te, [walk(f, W) for f in T[1]])
            if k in ("trec", "trecW"):
                w = T[2] if k == "trec" else W
                return record(te, [walk(f, w) for f in T[1]])
            if k == "ttrec":
                return record(te, [walk(T[2][f[1]] if f[0] == "tp" else f, W) for f in T[1]])
            if k == "bf":
                i = nxt()
                return f"{te}(BitVector[{T[1]}](_bs(P[{i}], {T[1]})))"
            if k == "ser":
                return f"{te}({walk(T[1], W)})"
            raise ValueError(T)

        return walk(T, None)

    def cb_expr(self, T, form_index, src="self.inp"):
        """run-time construction: record nodes reachable from the root through records are built with their
        constructor (form as in build_expr); every other sub-tree is taken from its documented slice of `src` with
        from_bits.  to_bits of the result must reproduce `src`."""

        def record(te, args):
            forms = ctor_forms(len(args))
            return apply_form(te, args, forms[form_index % len(forms)])

        def walk(T, W, lo):
            k = T[0]
            R = L.resolve(T, W)
            w = L.width(R)
            if k in RECORDS:
                te = self._texpr_w(T, W)
                if k == "trec":
                    W2 = T[2]
                elif k == "trecW":
                    W2 = W
                else:
                    W2 = W
                args, off = [], lo
                for f in T[1]:
                    if f[0] == "tp":
                        f = T[2][f[1]]
                    fw = L.width(L.resolve(f, W2))
                    args.append(walk(f, W2, off))
                    off += fw
                return record(te, args)
            te = self._texpr_w(T, W)
            return f"std.from_bits[{te}]({src}[{lo + w - 1}:{lo}])"

        return walk(T, None, 0)

    def _texpr_w(self, T, W):
        """type expression with the template argument substituted by the concrete W"""
        if W is None:
            return self.texpr(T)
        k = T[0]
        if k in ("bvW", "uW", "sW"):
            return self.texpr(L.resolve(T, W))
        if k == "trecW":
            return f"{self._trec(T[1])}[{W}]"
        if k == "tp":
            raise ValueError("unresolved type parameter")
        if k in ("carr", "sarr"):
            pre = "Array" if k == "carr" else "std.Array"
            return f"{pre}[{self._texpr_w(T[1], W)}, {T[2]}]"
        return self.texpr(T)

    # ---- cohdl.Array construction forms -------------------------------------------------------
    def _atom_literal(self, T, raw):
        k = T[0]
        w = L.width(T)
        if k == "bit":
            return f"Bit({bool(raw)})"
        if k == "bool":
            return repr(bool(raw))
        if k == "bv":
            return f'BitVector[{w}]("{format(raw, f"0{w}b")}")'
        if k == "u":
            return f"Unsigned[{w}]({raw})"
        if k == "s":
            return f"Signed[{w}]({L.signed_of(raw, w)})"
        te = self.texpr(T)
        if k == "enum":
            under = self._atom_literal(T[2], raw)
            return f"{te}._unsafe_init_({under})"
        if k in ("sfix", "ufix"):
            return f"{te}({L.fixed_number(k, T[1], T[2], raw)!r})"
        raise ValueError(T)

    def ad_plan(self, T, f):
        """construction of T in array-form f.  returns (root_args, leaves):
        root_args: constructor argument text of the ROOT object (default list / Null / Full / nothing for an array
                   root, keyword arguments for a record root)
        leaves:    [(access path, lo, width, type expr, const | None)]; const = default value of a leaf that lies
                   inside the given default prefix of all its enclosing arrays (such a leaf is NOT driven);
                   None for leaves that are driven from their documented slice of the input"""
        leaves = []
        counter = [0]

        def args_of(T, lo, path, covered, in_arr, forced):
            """constructor ARGUMENT text of a rec / carr node (also registers the leaves below it)"""
            k = T[0]
            if k == "rec":
                args, off = [], lo
                for i, fld in enumerate(T[1]):
                    args.append(f"f{i}=" + ctor(fld, off, f"{path}.f{i}", covered, in_arr, forced))
                    off += L.width(fld)
                return ", ".join(args)
            n, E = T[2], T[1]
            ew = L.width(E)
            forms = ad_forms(n)
            form = forms[f % len(forms)]
            if forced is not None:       # below a Null / Full array everything is that constant
                for i in range(n):
                    ctor(E, lo + i * ew, f"{path}[{i}]", covered, True, forced)
                return "Null" if forced == 0 else "Full"
            if form[0] == "d":
                elems = []
                for i in range(n):
                    c = ctor(E, lo + i * ew, f"{path}[{i}]", covered and i < form[1], True, None)
                    if i < form[1]:
                        elems.append(c)
                return "[" + ", ".join(elems) + "]"
            if form[0] == "none":
                for i in range(n):
                    ctor(E, lo + i * ew, f"{path}[{i}]", False, True, None)
                return ""
            val = 0 if form[0] == "null" else 1
            for i in range(n):
                ctor(E, lo + i * ew, f"{path}[{i}]", covered, True, val if covered else None)
            return "Null" if val == 0 else "Full"

        def ctor(T, lo, path, covered, in_arr, forced):
            """constructor text of a node"""
            k = T[0]
            w = L.width(T)
            if k in AD_ATOMS:
                g = counter[0]
                counter[0] += 1
                mask = (1 << w) - 1
                if forced is not None and covered:
                    leaves.append((path, lo, w, self.texpr(T), 0 if forced == 0 else mask))
                    return "None"
                if covered and in_arr:
                    const = (((g + 1) * 5) & mask) if w > 1 else ((g + 1) & 1)
                    leaves.append((path, lo, w, self.texpr(T), const))
                    return self._atom_literal(T, const)
                leaves.append((path, lo, w, self.texpr(T), None))
                return self._atom_literal(T, 0)
            return f"{self.texpr(T)}({args_of(T, lo, path, covered, in_arr, forced)})"

        root_args = args_of(T, 0, "", True, False, None)
        return root_args, leaves

    # ---- ports for views -------------------------------------------------------------------
    @staticmethod
    def port_type(v):
        if v.kind in ("bit", "bool"):
            return "Bit"
        if v.kind == "bv":
            return f"BitVector[{v.w}]"
        if v.kind == "u":
            return f"Unsigned[{v.w}]"
        if v.kind == "s":
            return f"Signed[{v.w}]"
        raise ValueError(v)

    def leaf_ports(self, vs, prefix):
        """[(port name, port type, view index, fixed-candidate-raw | None)]"""
        out = []
        for i, v in enumerate(vs):
            if v.kind in ("sfix", "ufix"):
                for raw in range(1 << v.w):
                    out.append((f"{prefix}{i}_k{raw}", "Bit", i, raw))
            else:
                out.append((f"{prefix}{i}", self.port_type(v), i, None))
        return out

    def leaf_assigns(self, vs, exprs, prefix, indent):
        lines = []
        for i, v in enumerate(vs):
            if v.kind in ("sfix", "ufix"):
                l, r = v.meta
                for raw in range(1 << v.w):
                    num = L.fixed_number(v.kind, l, r, raw)
                    lines.append(f"{indent}self.{prefix}{i}_k{raw} <<= ({exprs[i]} == {num!r})")
            else:
                lines.append(f"{indent}self.{prefix}{i} <<= {exprs[i]}")
        return lines

    # ---- whole module ----------------------------------------------------------------------
    def module(self, qualifiers=("value",), ct_patterns=(), with_bw=True, with_forms=True, reduced_forms=False,
               with_snapshot=False):
        T = self.T
        w = L.width(T)
        vs = L.views(T)
        is_ser = T[0] == "ser"
        texpr = self.texpr(T)
        stmts, exprs = self.observe(T)
        paths_ok = len(exprs) == len(vs)
        assert paths_ok, (T, exprs, vs)
        build = self.build_expr(T)

        src = [HEADER]
        body = []

        body.append(f"TYPE = {texpr}")
        body.append("BASES = [" + ", ".join(self.bases) + "]")
        body.append(f"WIDTH = {w}")
        body.append("")
        body.append("def observe(obj):")
        for s in stmts:
            body.append("    " + s)
        body.append("    return [" + ", ".join(exprs) + "]")
        body.append("")
        body.append("def build(P):")
        body.append(f"    return {build}")
        body.append("")

        # every construction form of the record nodes
        root_is_record = T[0] in RECORDS
        nf = n_forms(T) if with_forms else 0
        self.nforms = nf
        fidx = [0] + (reduced_form_indices(T) if reduced_forms else list(range(1, nf))) if nf else []
        self.form_indices = fidx
        body.append(f"NFORMS = {nf}")
        body.append(f"FORM_INDICES = {fidx!r}")
        for j in fidx[1:]:
            body.append(f"def build_f{j}(P):")
            body.append(f"    return {self.build_expr(T, j)}")
            body.append("")
        if root_is_record and with_forms:
            forms = ctor_forms(len(T[1]))
            body.append("FORM_NAMES = " + repr([form_name(forms[j % len(forms)]) for j in range(nf)]))
        else:
            body.append("FORM_NAMES = " + repr([f"f{j}" for j in range(nf)]))
        body.append("")

        # base classes of the top-level record: the low bits of a serialised value are a serialised base
        top_bases = self.base_of.get(T, []) if root_is_record else []
        RT_ = L.resolve(T)
        body.append("TOP_BASES = [" + ", ".join(f"({e}, {n})" for e, n in top_bases) + "]")
        for bi, (e, n) in enumerate(top_bases):
            bst, bex = self.observe(("rec", RT_[1][:n], (n,)), "obj", f"_b{bi}e")
            body.append(f"def observe_base{bi}(obj):")
            for st in bst:
                body.append("    " + st)
            body.append("    return [" + ", ".join(bex) + "]")
            body.append("")

        # the identical record without templates (same inheritance split)
        if T[0] in ("trec", "ttrec") and with_forms:
            twin = L.resolve(T)
            body.append(f"TWIN = {self.texpr(twin)}")
            body.append("def build_twin(P):")
            body.append(f"    return {self.build_expr(twin)}")
            body.append("")
        else:
            body.append("TWIN = None")

        def from_bits_expr(arg, qual):
            if is_ser:
                # Serialized[T]: documented entry points are from_raw(bits) / bits() / value()
                return f"TYPE.from_raw({arg})"
            return f"std.from_bits[TYPE]({arg}{QUALIFIERS[qual]})"

        to_bits_expr = "obj.bits()" if is_ser else "std.to_bits(obj)"

        # run-time wrappers
        for q in qualifiers:
            lp = self.leaf_ports(vs, "l")
            body.append(f"class RT_{q}(cohdl.Entity):")
            body.append(f"    inp = Port.input(BitVector[{w}])")
            body.append(f"    ser = Port.output(BitVector[{w}])")
            if is_ser:
                body.append(f"    ser2 = Port.output(BitVector[{w}])")
            for name, pt, _, _ in lp:
                body.append(f"    {name} = Port.output({pt})")
            body.append("")
            body.append("    def architecture(self):")
            body.append("        @std.sequential" if q == "variable" else "        @std.concurrent")
            body.append("        def logic():")
            body.append(f"            obj = {from_bits_expr('self.inp', q)}")
            for s in stmts:
                body.append("            " + s)
            body += self.leaf_assigns(vs, exprs, "l", "            ")
            body.append(f"            self.ser <<= {to_bits_expr}")
            if is_ser:
                inner = self.texpr(T[1])
                body.append(f"            x2 = std.from_bits[{inner}](self.inp)")
                body.append("            self.ser2 <<= TYPE(x2).bits()")
            body.append("")

        # run-time construction in every form (CBX: the same without the Null / Full constructions, used when the
        # compiler rejects those for some field type)
        if root_is_record and with_forms:
            for cname, with_nf in (("CB", True), ("CBX", False)):
                body.append(f"class {cname}(cohdl.Entity):")
                body.append(f"    inp = Port.input(BitVector[{w}])")
                for j in fidx:
                    body.append(f"    cb{j} = Port.output(BitVector[{w}])")
                if with_nf:
                    body.append(f"    cbnull = Port.output(BitVector[{w}])")
                    body.append(f"    cbfull = Port.output(BitVector[{w}])")
                body.append("")
                body.append("    def architecture(self):")
                body.append("        @std.concurrent")
                body.append("        def logic():")
                for j in fidx:
                    body.append(f"            self.cb{j} <<= std.to_bits({self.cb_expr(T, j)})")
                if with_nf:
                    body.append("            self.cbnull <<= std.to_bits(TYPE(Null))")
                    body.append("            self.cbfull <<= std.to_bits(TYPE(Full))")
                body.append("")

        # cohdl.Array construction forms (partial default lists, Null, Full, no argument) under Signal / Variable
        self.ad_plans = []
        if with_forms and ad_eligible(T):
            nad = ad_nforms(T)
            plans = [self.ad_plan(T, f) for f in range(nad)]
            self.ad_plans = plans
            is_arr = T[0] == "carr"
            body.append(f"AD_NFORMS = {nad}")
            body.append("AD_EXPECT = " + repr([[(lo, lw, c) for _, lo, lw, _, c in lv if c is not None] for _, lv in plans]))
            body.append("def ad_make(f, Q):")
            body.append('    """the object of construction form f; Q = None (constant), Signal or Variable"""')
            for f, (ra, _) in enumerate(plans):
                body.append(f"    if f == {f}:")
                body.append(f"        return TYPE({ra}) if Q is None else Q[TYPE]({ra})")
            body.append("")
            for qual, deco, qexpr, op in (("signal", "std.concurrent", "std.Signal", "<<="),
                                          ("variable", "std.sequential", "std.Variable", "@=")):
                # one small entity per form (forms the compiler rejects must not hide the others)
                # ADW: width and iteration length only (never width sensitive); AD: the serialised value
                for f, (ra, lv) in enumerate(plans):
                    for ename, data in ((f"ADW_{qual}_{f}", False), (f"AD_{qual}_{f}", True)):
                        body.append(f"class {ename}(cohdl.Entity):")
                        body.append(f"    inp = Port.input(BitVector[{w}])")
                        if data:
                            body.append(f"    o = Port.output(BitVector[{w}])")
                        else:
                            body.append("    wd = Port.output(Unsigned[6])")
                            if is_arr:
                                body.append("    n = Port.output(Unsigned[6])")
                                body.append("    m = Port.output(Unsigned[6])")
                        body.append("")
                        body.append("    def architecture(self):")
                        if qual == "signal":
                            body.append(f"        x = {qexpr}[TYPE]({ra})")
                        body.append(f"        @{deco}")
                        body.append("        def logic():")
                        if qual == "variable":
                            body.append(f"            x = {qexpr}[TYPE]({ra})")
                        for path, lo, lw, te, const in lv:
                            if const is None:
                                body.append(f"            x{path} {op} std.from_bits[{te}](self.inp[{lo + lw - 1}:{lo}])")
                        if data:
                            body.append("            self.o <<= std.to_bits(x)")
                        else:
                            body.append("            self.wd <<= std.to_bits(x).width")
                            if is_arr:
                                body.append("            self.n <<= len([e for e in x])")
                                body.append("            self.m <<= len(x)")
                        body.append("")
        else:
            body.append("AD_NFORMS = 0")

        # value snapshot: to_bits / Serialized of a Variable taken BEFORE the variable is assigned again
        if with_snapshot and not is_ser:
            body.append("HAS_SNAPSHOT = True")
            body.append("def snapshot_py(A, B):")
            body.append('    """plain Python (compile time) evaluation; returns (bits kept, round trip of kept bits, bits after)"""')
            body.append("    v = std.Variable[TYPE](std.from_bits[TYPE](A))")
            body.append("    kept = std.to_bits(v)")
            body.append("    v @= std.from_bits[TYPE](B)")
            body.append("    return kept, std.to_bits(std.from_bits[TYPE](kept)), std.to_bits(v)")
            body.append("")
            body.append("def snapshot_ser_py(A, B):")
            body.append("    v = std.Variable[TYPE](std.from_bits[TYPE](A))")
            body.append("    ser = std.Serialized[TYPE](v)")
            body.append("    v @= std.from_bits[TYPE](B)")
            body.append("    return ser.bits(), std.to_bits(ser.value()), std.to_bits(v)")
            body.append("")
            for ename, use_ser in (("SN", False), ("SNS", True)):
                body.append(f"class {ename}(cohdl.Entity):")
                body.append(f"    a = Port.input(BitVector[{w}])")
                body.append(f"    b = Port.input(BitVector[{w}])")
                body.append(f"    o_kept = Port.output(BitVector[{w}])")
                body.append(f"    o_rt = Port.output(BitVector[{w}])")
                body.append(f"    o_new = Port.output(BitVector[{w}])")
                body.append("")
                body.append("    def architecture(self):")
                body.append("        v = std.Variable[TYPE]()")
                body.append("        @std.sequential")
                body.append("        def proc():")
                body.append("            nonlocal v")
                body.append("            v @= std.from_bits[TYPE](self.a)")
                if use_ser:
                    body.append("            ser = std.Serialized[TYPE](v)")
                else:
                    body.append("            kept = std.to_bits(v)")
                body.append("            v @= std.from_bits[TYPE](self.b)")
                if use_ser:
                    body.append("            self.o_kept <<= ser.bits()")
                    body.append("            self.o_rt <<= std.to_bits(ser.value())")
                else:
                    body.append("            self.o_kept <<= kept")
                    body.append("            self.o_rt <<= std.to_bits(std.from_bits[TYPE](kept))")
                body.append("            self.o_new <<= std.to_bits(v)")
                body.append("")
        else:
            body.append("HAS_SNAPSHOT = False")

        # constants inside a synthesisable context
        if ct_patterns:
            body.append("class CT(cohdl.Entity):")
            body.append("    dummy = Port.input(Bit)")
            for ci, _ in enumerate(ct_patterns):
                body.append(f"    c{ci}_ser = Port.output(BitVector[{w}])")
                for name, pt, _, _ in self.leaf_ports(vs, f"c{ci}_l"):
                    body.append(f"    {name} = Port.output({pt})")
            body.append("")
            body.append("    def architecture(self):")
            body.append("        @std.concurrent")
            body.append("        def logic():")
            for ci, pat in enumerate(ct_patterns):
                const = f'BitVector[{w}]("{format(pat, f"0{w}b")}")'
                cst, cex = self.observe(T, f"obj{ci}", f"_c{ci}e")
                body.append(f"            obj{ci} = {from_bits_expr(const, 'value')}")
                for s in cst:
                    body.append("            " + s)
                body += self.leaf_assigns(vs, cex, f"c{ci}_l", "            ")
                body.append(f"            self.c{ci}_ser <<= {to_bits_expr.replace('obj', f'obj{ci}')}")
            body.append("")

        # bit field write wrapper
        if with_bw and T[0] == "bf":
            wr = L.bf_write_ranges(T)
            body.append("class BW(cohdl.Entity):")
            body.append(f"    inp = Port.input(BitVector[{w}])")
            for i, (p, lo, fw) in enumerate(wr):
                kind = self._bf_member_kind(T, p)
                pt = {"bit": "Bit", "bv": f"BitVector[{fw}]", "u": f"Unsigned[{fw}]", "s": f"Signed[{fw}]"}[kind]
                body.append(f"    v{i} = Port.input({pt})")
                body.append(f"    o{i} = Port.output(BitVector[{w}])")
            body.append("")
            body.append("    def architecture(self):")
            body.append("        @std.sequential")
            body.append("        def proc():")
            for i, (p, lo, fw) in enumerate(wr):
                body.append(f"            b{i} = std.from_bits[TYPE](self.inp, std.Variable)")
                body.append(f"            b{i}{p} @= self.v{i}")
                body.append(f"            self.o{i} <<= std.to_bits(b{i})")
            body.append("")

        src.append("\n\n".join(self.defs))
        src.append("\n\n")
        src.append("\n".join(body))
        return "".join(src)

    @staticmethod
    def _bf_member_kind(T, path):
        node = T
        parts = [p for p in path.split(".") if p]
        for j, p in enumerate(parts):
            f = node[2][int(p[1:])]
            if f[0] == "sub":
                if j == len(parts) - 1:
                    return "bv"     # a whole sub bit field is assigned from a BitVector
                node = f[1]
            elif f[0] == "fb":
                return "bit"
            else:
                return f[3]
        raise ValueError(path)


def ct_patterns_for(w):
    """constants checked inside a synthesisable context: all patterns for w <= 3; otherwise the position-code
    patterns: bit i of pattern j = bit j of (i + 1), with enough patterns that no position has the all-zero or
    all-one code.  Any two bit positions differ in some pattern and every position differs from constant 0 / 1, so
    every misplaced / dropped / duplicated / stuck bit of a layout shows (fixed structural set, not sampled)"""
    if w <= 3:
        return tuple(range(1 << w))
    k = 1
    while (1 << k) - 1 <= w:      # codes 1..w must avoid 2**k - 1
        k += 1
    return tuple(sum(1 << i for i in range(w) if ((i + 1) >> j) & 1) for j in range(k))

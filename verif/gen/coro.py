"""Bounded-exhaustive generator of coroutine (async process) bodies, their CoHDL rendering and the
reference abstract machine (DESIGN.md Appendix B).

Abstract statements (nested tuples, hashable):
    ('site',)                 observable side effect; numbered in source order at rendering time
    ('await', c)              c in AWAIT_CONDS
    ('if', c, then, orelse)   then/orelse: tuples of statements (orelse may be ())
    ('while', c, body)        c in COND or 'T' (while True)
    ('break',) ('continue',)
    ('call', j)               await sub_j(...)   j indexes SUBS
    ('return',)               only inside SUBS
"""
from __future__ import annotations

import itertools

# conditions over the two input bits (i0, i1); evaluated on an input valuation (i0, i1)
COND = {
    "i0": ("self.i0", lambda i, v: bool(i[0])),
    "i1": ("self.i1", lambda i, v: bool(i[1])),
    "n0": ("~self.i0", lambda i, v: not i[0]),
    "v0": ("v[0]", lambda i, v: bool(v & 1)),
}
AWAIT = {
    "i0": ("self.i0", lambda i, v: bool(i[0])),
    "i1": ("self.i1", lambda i, v: bool(i[1])),
    "and": ("cohdl.expr(self.i0 & self.i1)", lambda i, v: bool(i[0] and i[1])),
    "n1": ("cohdl.expr(~self.i1)", lambda i, v: not i[1]),
    "true": ("cohdl.true", lambda i, v: True),
    "false": ("cohdl.false", None),
    # waiter coroutines made by ONE factory (same code object, different captured signal): behave like `await <sig>`
    "w0": ("self.w0()", lambda i, v: bool(i[0])),
    "w1": ("self.w1()", lambda i, v: bool(i[1])),
    # the awaited signal is returned by a plain function with a side effect (pulse on `pa`): the side effect happens
    # once, in the clock the await is reached (third element = reach action)
    "arm": ("arm(self)", lambda i, v: bool(i[0]), "a"),
}

S = ("site",)
SUBS = [
    # plain awaits
    (("await", "i0"), S),
    # loop with return in a branch
    (("while", "i1", (S, ("if", "i0", (("return",),), ()), ("await", "true"))), S),
    # site, await, early return
    (S, ("if", "i1", (("return",),), ()), ("await", "i0"), S),
    # nested call
    (("call", 0), S, ("await", "true")),
    # loop whose body always returns, followed by code that only runs when the loop is not entered
    (("while", "i1", (S, ("return",))), S, ("await", "i0")),
]


def terminal(st):
    return st[0] in ("break", "continue", "return") or st == ("await", "false")


def gen_blocks(size, in_loop, conds, awaits, calls, depth):
    """all statement tuples with exactly `size` statement nodes (nesting <= depth)."""
    if size == 0:
        yield ()
        return
    for first_size in range(1, size + 1):
        for st in gen_stmt(first_size, in_loop, conds, awaits, calls, depth):
            rest_size = size - first_size
            if terminal(st):
                if rest_size == 0:
                    yield (st,)
                continue
            for rest in gen_blocks(rest_size, in_loop, conds, awaits, calls, depth):
                yield (st,) + rest


def gen_stmt(size, in_loop, conds, awaits, calls, depth):
    if size == 1:
        yield S
        for a in awaits:
            yield ("await", a)
        if in_loop:
            yield ("break",)
            yield ("continue",)
        for j in calls:
            yield ("call", j)
        return
    if depth <= 0:
        return
    inner = size - 1
    # if c: then [else: orelse]   (then non-empty)
    for c in conds:
        for tsize in range(1, inner + 1):
            for then in gen_blocks(tsize, in_loop, conds, awaits, calls, depth - 1):
                for orelse in gen_blocks(inner - tsize, in_loop, conds, awaits, calls, depth - 1):
                    yield ("if", c, then, orelse)
    for c in list(conds) + ["T"]:
        for body in gen_blocks(inner, True, conds, awaits, calls, depth - 1):
            yield ("while", c, body)


def count_sites(block):
    n = 0
    for st in block:
        if st[0] == "site":
            n += 1
        elif st[0] in ("if", "mif"):
            n += count_sites(st[2]) + count_sites(st[3])
        elif st[0] == "while":
            n += count_sites(st[2])
        elif st[0] == "call":
            n += 1  # every sub contains a site
    return n


def has(block, kind):
    for st in block:
        if st[0] == kind:
            return True
        if st[0] in ("if", "mif") and (has(st[2], kind) or has(st[3], kind)):
            return True
        if st[0] == "while" and has(st[2], kind):
            return True
    return False


def loop_first_programs(max_items=4, loop_conds=("T", "i0"), conds=("i0", "i1"), awaits=("i1", "true")):
    """programs whose first action is a while loop, with bodies of 2..max_items items from {if c: break, if c: continue, await, site},
    optionally followed by one site (the coroutine ends right after the loop otherwise)"""
    items = [("if", c, (("break",),), ()) for c in conds] + [("if", c, (("continue",),), ()) for c in conds] + \
            [("await", a) for a in awaits] + [S]
    for n in range(2, max_items + 1):
        for body in itertools.product(items, repeat=n):
            if not any(it[0] == "await" for it in body):
                continue  # a loop without await never consumes a clock inside the body (covered by the small programs)
            for lc in loop_conds:
                for tail in ((), (S,)):
                    prog = (("while", lc, tuple(body)),) + tail
                    if count_sites(prog):
                        yield prog


def to_match(block):
    """the same program with every `if` written as a `match` statement"""
    out = []
    for st in block:
        if st[0] == "if":
            out.append(("mif", st[1], to_match(st[2]), to_match(st[3])))
        elif st[0] == "while":
            out.append(("while", st[1], to_match(st[2])))
        else:
            out.append(st)
    return tuple(out)


def programs(size, conds=("i0", "i1", "n0"), awaits=("i0", "i1", "and", "true", "false"), calls=(0, 1, 2, 3, 4), depth=3):
    for b in gen_blocks(size, False, conds, awaits, calls, depth):
        if count_sites(b) == 0:
            continue
        yield b


# ----------------------------------------------------------------------------
# flattening: statement lists get ids; sites get numbers (source order, subs after the main body)
# ----------------------------------------------------------------------------
class Flat:
    def __init__(self, prog):
        self.prog = prog
        self.lists = []  # (kind, stmts)  kind: 'top' | 'blk' | 'loop' | 'sub'
        self.site_no = {}  # (lid, idx) -> site number (1-based)
        self.child = {}  # (lid, idx, which) -> lid
        self.nsites = 0
        self.used_subs = []
        self.sub_lid = {}
        self.top = self._add("top", prog)
        # subs are flattened once each (shared by all call sites)
        i = 0
        while i < len(self.used_subs):
            j = self.used_subs[i]
            self.sub_lid[j] = self._add("sub", SUBS[j])
            i += 1

    def _add(self, kind, stmts):
        lid = len(self.lists)
        self.lists.append((kind, stmts))
        for idx, st in enumerate(stmts):
            if st[0] == "site":
                self.nsites += 1
                self.site_no[(lid, idx)] = self.nsites
            elif st[0] in ("if", "mif"):
                self.child[(lid, idx, 0)] = self._add("blk", st[2])
                self.child[(lid, idx, 1)] = self._add("blk", st[3])
            elif st[0] == "while":
                self.child[(lid, idx, 0)] = self._add("loop", st[2])
            elif st[0] == "call":
                if st[1] not in self.used_subs:
                    self.used_subs.append(st[1])
        return lid


# ----------------------------------------------------------------------------
# CoHDL rendering
# ----------------------------------------------------------------------------
def render(prog, reset=None, entity="T", on_reset=False, c04=False):
    """reset: None | dict(is_async=bool, active_low=bool)"""
    f = Flat(prog)
    # nopush: the sites use no push assignment at all (a context without pushed signals is lowered differently)
    nopush = bool(reset and reset.get("nopush"))
    out = ["from cohdl import std, Entity, Port, Bit, Unsigned, Signal, Variable", "import cohdl", ""]

    def block(lid, ind, env):
        kind, stmts = f.lists[lid]
        pre = "    " * ind
        lines = []
        if not stmts:
            return [pre + "pass"]
        for idx, st in enumerate(stmts):
            k = st[0]
            if k == "site":
                n = f.site_no[(lid, idx)]
                lines += [pre + f"{env}.o <<= {n}"] + ([] if nopush else [pre + f"{env}.p{n} ^= True"]) + [pre + "v @= v + 1", pre + f"{env}.ov <<= v"]
                if c04:
                    lines += [pre + f"{env}.ond <<= {n}", pre + f"{env}.onr <<= {n}", pre + f"{env}.orst <<= 1",
                              pre + f"{env}.onr2[0] <<= {bool(n & 1)}", pre + f"{env}.onr2[2:1] <<= '{(n >> 1) & 3:02b}'"]
            elif k == "await":
                lines.append(pre + "await " + AWAIT[st[1]][0].replace("self.", env + "."))
            elif k == "if":
                lines.append(pre + "if " + COND[st[1]][0].replace("self.", env + ".") + ":")
                lines += block(f.child[(lid, idx, 0)], ind + 1, env)
                if st[3]:
                    lines.append(pre + "else:")
                    lines += block(f.child[(lid, idx, 1)], ind + 1, env)
            elif k == "mif":
                # the same two-way branch written as a match statement on the (Bit valued) condition
                lines.append(pre + "match " + COND[st[1]][0].replace("self.", env + ".") + ":")
                lines.append(pre + "    case 1:")
                lines += block(f.child[(lid, idx, 0)], ind + 2, env)
                lines.append(pre + "    case _:")
                lines += block(f.child[(lid, idx, 1)], ind + 2, env) if st[3] else [pre + "        pass"]
            elif k == "while":
                c = "True" if st[1] == "T" else COND[st[1]][0].replace("self.", env + ".")
                lines.append(pre + f"while {c}:")
                lines += block(f.child[(lid, idx, 0)], ind + 1, env)
            elif k == "call":
                lines.append(pre + f"await sub{st[1]}({env}, v)")
            else:
                lines.append(pre + k)
        return lines

    out += ["def mkw(sig):", "    async def w():", "        await sig", "    return w", "",
            "def arm(e):", "    e.pa ^= True", "    return e.i0", ""]
    for j in f.used_subs:
        out.append(f"async def sub{j}(e, v):")
        out += block(f.sub_lid[j], 1, "e")
        out.append("")
    out.append(f"class {entity}(Entity):")
    out.append("    clk = Port.input(Bit)")
    if reset is not None:
        out.append("    rst = Port.input(Bit)")
    out.append("    i0 = Port.input(Bit)")
    out.append("    i1 = Port.input(Bit)")
    if reset is not None and reset.get("step_cond"):
        out.append("    en = Port.input(Bit)")
    out.append("    o = Port.output(Unsigned[3], default=0)")
    out.append("    ov = Port.output(Unsigned[2], default=0)")
    out.append("    pa = Port.output(Bit, default=False)")
    for n in range(1, f.nsites + 1):
        out.append(f"    p{n} = Port.output(Bit, default=False)")
    if c04:
        out.append("    ond = Port.output(Unsigned[3])")
        out.append("    onr = Port.output(Unsigned[3], default=0, noreset=True)")
        out.append("    onr2 = Port.output(Unsigned[3], default=0, noreset=True)")
        out.append("    orst = Port.output(Unsigned[2], default=0)")
    out.append("    def architecture(self):")
    out.append("        v = Variable[Unsigned[2]](0)")
    out.append("        self.w0 = mkw(self.i0)")
    out.append("        self.w1 = mkw(self.i1)")
    if c04 and on_reset:
        out.append("        def on_rst():")
        out.append("            self.orst <<= 3")
    onr = ", on_reset=on_rst" if (c04 and on_reset) else ""
    if reset is None:
        out.append("        @std.sequential(std.Clock(self.clk))")
    else:
        sc = ", step_cond=lambda: self.en" if reset.get("step_cond") else ""
        if reset.get("with_params"):
            out.append(f"        base_ctx = std.SequentialContext(std.Clock(self.clk), std.Reset(self.rst, is_async={reset['is_async']}, "
                       f"active_low={reset['active_low']}){onr})")
            out.append("        @base_ctx.with_params(step_cond=lambda: self.en)")
        else:
            out.append(f"        @std.sequential(std.Clock(self.clk), std.Reset(self.rst, is_async={reset['is_async']}, "
                       f"active_low={reset['active_low']}){sc}{onr})")
    out.append("        async def proc():")
    out.append("            nonlocal v")
    out += block(f.top, 3, "self")
    out.append("")
    return "\n".join(out), f


# ----------------------------------------------------------------------------
# reference abstract machine
# ----------------------------------------------------------------------------
class ZeroTimeLoop(Exception):
    """The Python source would spin without consuming a clock (not meaningful hardware); such a
    program is outside the property's domain."""


RUN, WAIT, WAIT1, DEAD = 0, 1, 2, 3


class RefMachine:
    """State: (mode, stack, o, ov, v) ; stack = tuple of (lid, idx) frames, innermost last.
    step(inputs) advances one clock and returns the output dict."""

    def __init__(self, flat: Flat, c04=False, on_reset=False, nopush=False):
        self.f = flat
        self.nopush = nopush
        self.c04 = c04
        self.on_reset = on_reset
        self.ond = None   # no default: undefined until first assignment, kept by reset
        self.onr = 0      # noreset: kept by reset
        self.onr2 = 0     # noreset, written through bit / slice references
        self.orst = 0
        self.reset_state()

    def reset_state(self):
        self.mode = RUN
        self.stack = ((self.f.top, 0),)
        self.o = 0
        self.ov = 0
        self.v = 0
        self.pulses = frozenset()

    def snapshot(self):
        return (self.mode, self.stack, self.o, self.ov, self.v, self.pulses, self.ond, self.onr, self.orst, self.onr2)

    def restore(self, s):
        self.mode, self.stack, self.o, self.ov, self.v, self.pulses, self.ond, self.onr, self.orst, self.onr2 = s

    def outputs(self):
        d = {"o": self.o, "ov": self.ov}
        if self.c04:
            d.update(ond=self.ond, onr=self.onr, orst=self.orst, onr2=self.onr2)
        for n in range(1, self.f.nsites + 1):
            d[f"p{n}"] = 1 if (n in self.pulses and not self.nopush) else 0
        d["pa"] = 1 if "a" in self.pulses else 0
        return d

    def step(self, inp):
        f = self.f
        lists = f.lists
        pulses = set()
        o_next = None
        ov_next = None
        stack = list(self.stack)
        mode = self.mode
        first = False
        budget = 10000
        suspended_since_head = {}  # not needed across clocks: every clock begins with a suspension
        evaluated_heads = set()  # loop heads evaluated during this clock without a suspension in between

        if mode == DEAD:
            self.pulses = frozenset()
            return self.outputs()
        if mode == RUN:
            stack = [(f.top, 0)]
            first = True
            resume = "run"
        elif mode == WAIT:
            lid, idx = stack[-1]
            st = lists[lid][1][idx]
            if not AWAIT[st[1]][1](inp, self.v):
                self.pulses = frozenset()
                return self.outputs()
            stack[-1] = (lid, idx + 1)
            resume = "run"
        else:  # WAIT1: at a loop head
            resume = "head"

        while True:
            budget -= 1
            if budget <= 0:
                raise ZeroTimeLoop()
            lid, idx = stack[-1]
            kind, stmts = lists[lid]
            if resume == "head":
                # evaluate the loop head of the while statement at stack[-1]
                resume = "run"
                st = stmts[idx]
                first = False
                key = (lid, idx)
                if key in evaluated_heads:
                    raise ZeroTimeLoop()
                evaluated_heads.add(key)
                c = True if st[1] == "T" else COND[st[1]][1](inp, self.v)
                if c:
                    stack.append((f.child[(lid, idx, 0)], 0))
                else:
                    stack[-1] = (lid, idx + 1)
                continue
            if idx >= len(stmts):
                if kind == "top":
                    mode = RUN
                    stack = [(f.top, 0)]
                    break
                stack.pop()
                plid, pidx = stack[-1]
                if kind == "loop":
                    # back-edge: costs one clock, resume at the head
                    mode = WAIT1
                    break
                stack[-1] = (plid, pidx + 1)
                continue
            st = stmts[idx]
            k = st[0]
            if k == "site":
                n = f.site_no[(lid, idx)]
                o_next = n
                pulses.add(n)
                if self.c04:
                    self.ond = n
                    self.onr = n
                    self.onr2 = n & 7
                    self.orst = 1
                self.v = (self.v + 1) & 3
                ov_next = self.v
                first = False
                stack[-1] = (lid, idx + 1)
            elif k == "await":
                c = st[1]
                if c == "false":
                    mode = DEAD
                    break
                if len(AWAIT[c]) > 2:
                    # evaluating the awaited expression has a side effect: it is an action of its own
                    pulses.add(AWAIT[c][2])
                    first = False
                if first:
                    first = False
                    if AWAIT[c][1](inp, self.v):
                        stack[-1] = (lid, idx + 1)
                        continue
                mode = WAIT
                break
            elif k in ("if", "mif"):
                first = False
                if COND[st[1]][1](inp, self.v):
                    stack.append((f.child[(lid, idx, 0)], 0))
                elif st[3]:
                    stack.append((f.child[(lid, idx, 1)], 0))
                else:
                    stack[-1] = (lid, idx + 1)
            elif k == "while":
                if not first:
                    mode = WAIT1
                    break
                resume = "head"
            elif k == "call":
                stack.append((f.sub_lid[st[1]], 0))
            elif k in ("break", "continue"):
                # unwind to the innermost enclosing loop body frame
                while lists[stack[-1][0]][0] != "loop":
                    stack.pop()
                stack.pop()
                plid, pidx = stack[-1]
                if k == "break":
                    stack[-1] = (plid, pidx + 1)
                else:
                    resume = "head"
            elif k == "return":
                while lists[stack[-1][0]][0] != "sub":
                    stack.pop()
                stack.pop()
                plid, pidx = stack[-1]
                stack[-1] = (plid, pidx + 1)
            else:
                raise AssertionError(k)
        self.mode = mode
        self.stack = tuple(stack)
        if o_next is not None:
            self.o = o_next
        if ov_next is not None:
            self.ov = ov_next
        self.pulses = frozenset(pulses)
        return self.outputs()

    def do_reset(self):
        """reset active at the sampling instant: resettable objects take their defaults, the coroutine returns to its
        first state, on_reset actions run; objects without default / noreset keep their value"""
        self.reset_state()
        self.orst = 3 if self.on_reset else 0


# ----------------------------------------------------------------------------
# CPython rendering of the same program (upstream MockBase style: one `yield` per clock).  The control flow is executed
# by CPython itself (while / if / break / continue / return / yield from), which makes it an independent formulation of
# "executing the Python source directly"; the abstract machine above is validated against it on ALL input sequences
# up to a length bound before it is trusted as an oracle.
# ----------------------------------------------------------------------------
def render_pygen(prog):
    f = Flat(prog)
    out = []

    def block(lid, ind):
        kind, stmts = f.lists[lid]
        pre = "    " * ind
        lines = []
        if not stmts:
            return [pre + "pass"]
        for idx, st in enumerate(stmts):
            k = st[0]
            if k == "site":
                lines += [pre + f"env.site({f.site_no[(lid, idx)]})", pre + "env.first = False"]
            elif k == "await":
                if st[1] == "false":
                    lines += [pre + "while True:", pre + "    yield"]
                else:
                    if len(AWAIT[st[1]]) > 2:
                        lines += [pre + f"env.pulses.add({AWAIT[st[1]][2]!r})", pre + "env.first = False"]
                    lines += [pre + f"if env.first and env.aw({st[1]!r}):",
                              pre + "    env.first = False",
                              pre + "else:",
                              pre + "    env.first = False",
                              pre + "    yield",
                              pre + f"    while not env.aw({st[1]!r}):",
                              pre + "        yield"]
            elif k in ("if", "mif"):
                lines += [pre + "env.first = False", pre + f"if env.cond({st[1]!r}):"]
                lines += block(f.child[(lid, idx, 0)], ind + 1)
                if st[3]:
                    lines.append(pre + "else:")
                    lines += block(f.child[(lid, idx, 1)], ind + 1)
            elif k == "while":
                # loop entry costs a clock unless it is the first action; every back-edge costs a clock (the trailing
                # yield); `continue` skips the trailing yield and re-tests the condition in the same clock
                lines += [pre + "if not env.first:", pre + "    yield", pre + "env.first = False",
                          pre + f"while env.cond({st[1]!r}):"]
                lines += block(f.child[(lid, idx, 0)], ind + 1)
                lines += [pre + "    yield"]
            elif k == "call":
                lines.append(pre + f"yield from sub{st[1]}(env)")
            else:
                lines.append(pre + k)  # break / continue / return
        return lines

    for j in f.used_subs:
        out.append(f"def sub{j}(env):")
        out += block(f.sub_lid[j], 1)
        out.append("    return")
        out.append("    yield")
    out.append("def mock(env):")
    out += block(f.top, 1)
    out.append("    return")
    out.append("    yield")
    out.append("def run(env):")
    out.append("    while True:")
    out.append("        env.first = True")
    out.append("        yield from mock(env)")
    out.append("        yield")
    return "\n".join(out), f


class _Env:
    def __init__(self, nsites):
        self.inp = (0, 0)
        self.first = True
        self.o = 0
        self.ov = 0
        self.v = 0
        self.pulses = set()
        self.nsites = nsites
        self.o_next = None
        self.ov_next = None
        self.budget = 0

    def site(self, n):
        self.o_next = n
        self.pulses.add(n)
        self.v = (self.v + 1) & 3
        self.ov_next = self.v

    def aw(self, c):
        self.budget -= 1
        if self.budget < 0:
            raise ZeroTimeLoop()
        return AWAIT[c][1](self.inp, self.v)

    def cond(self, c):
        self.budget -= 1
        if self.budget < 0:
            raise ZeroTimeLoop()
        return True if c == "T" else COND[c][1](self.inp, self.v)

    def outputs(self):
        d = {"o": self.o, "ov": self.ov}
        for n in range(1, self.nsites + 1):
            d[f"p{n}"] = 1 if n in self.pulses else 0
        d["pa"] = 1 if "a" in self.pulses else 0
        return d


def validate_ref_against_cpython(prog, length=4):
    """Runs RefMachine and the CPython generator rendering on all input sequences of the given length (as a tree: prefixes
    are shared).  Returns (number of traces compared, mismatch description | None)."""
    import itertools

    src, flat = render_pygen(prog)
    ns = {}
    exec(compile(src, "<pygen>", "exec"), ns)
    n = 0
    for seq in itertools.product([(0, 0), (1, 0), (0, 1), (1, 1)], repeat=length):
        env = _Env(flat.nsites)
        gen = ns["run"](env)
        ref = RefMachine(flat)
        n += 1
        for k, inp in enumerate(seq):
            env.inp = inp
            env.pulses = set()
            env.o_next = env.ov_next = None
            env.budget = 2000
            try:
                next(gen)
                zero_py = False
            except ZeroTimeLoop:
                zero_py = True
            try:
                exp = ref.step(inp)
                zero_ref = False
            except ZeroTimeLoop:
                zero_ref = True
            if zero_py or zero_ref:
                if zero_py != zero_ref:
                    return n, f"zero-time-loop disagreement at step {k} of {seq}: cpython={zero_py} machine={zero_ref}"
                break
            if env.o_next is not None:
                env.o = env.o_next
            if env.ov_next is not None:
                env.ov = env.ov_next
            got = env.outputs()
            if got != exp:
                return n, f"after {seq[:k + 1]}: cpython generator {got} != abstract machine {exp}"
    return n, None

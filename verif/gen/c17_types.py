"""C17 generator: bounded-exhaustive families of serialisable type compositions (abstract tuple trees).

Node forms are documented in verif/ref/c17_layout.py.  Enumeration is complete for the stated
alphabets / bounds, in size order (nesting level, then width, then lexicographic).
"""
from __future__ import annotations

import itertools

BIT = ("bit",)
BOOL = ("bool",)


def BV(n):
    return ("bv", n)


U2 = ("u", 2)
S2 = ("s", 2)
ENUM_U2 = ("enum", False, ("u", 2), (0, 2))          # class E(std.Enum[Unsigned[2]]): m0 = 0; m1 = 2
ENUM_BV1 = ("enum", False, ("bv", 1), (1,))
ENUM_S2 = ("enum", False, ("s", 2), (3, 1))          # raw patterns: -1, 1
ENUM_BIT = ("enum", False, ("bit",), (0, 1))
FLAG_BV3 = ("enum", True, ("bv", 3), (1, 2, 4))      # class F(std.FlagEnum[BitVector[3]])
FLAG_U2 = ("enum", True, ("u", 2), (1, 2))
SFIX_1_m1 = ("sfix", 1, -1)   # 3 bits
SFIX_0_0 = ("sfix", 0, 0)     # 1 bit
SFIX_m1_m2 = ("sfix", -1, -2)  # 2 bits, only fractional
UFIX_0_m1 = ("ufix", 0, -1)   # 2 bits
UFIX_2_1 = ("ufix", 2, 1)     # 2 bits, positive right index
UFIX_1_m1 = ("ufix", 1, -1)   # 3 bits

# full atom alphabet (nesting level 0)
ATOMS_FULL = (BIT, BOOL, BV(1), BV(2), BV(3), U2, S2, ENUM_U2, ENUM_S2, FLAG_BV3, ENUM_BIT,
              SFIX_1_m1, SFIX_m1_m2, UFIX_0_m1, UFIX_2_1)
# reduced alphabets used below the top levels (one representative per kind, uneven widths 1/2/3)
ATOMS_MID = (BIT, BOOL, BV(2), BV(3), S2, ENUM_U2, UFIX_0_m1)
ATOMS_SMALL = (BIT, BOOL, BV(2), BV(3))
ATOMS_TINY = (BIT, BV(2))

PRIMITIVE = ("bit", "bv", "u", "s")   # element kinds cohdl.Array documents ("limited to builtins")


# ----------------------------------------------------------------------------------------------
def _resolved_width(T):
    from ..ref.c17_layout import width

    return width(T)


def depth(T) -> int:
    k = T[0]
    if k in ("bit", "bool", "bv", "u", "s", "enum", "sfix", "ufix", "bvW", "uW", "sW"):
        return 0
    if k in ("carr", "sarr"):
        return 1 + depth(T[1])
    if k == "tp":
        return 0
    if k == "ttrec":
        return 1 + max([depth(f) for f in T[1]] + [depth(a) for a in T[2]])
    if k in ("rec", "trec", "trecW"):
        return 1 + max(depth(f) for f in T[1])
    if k == "ser":
        return depth(T[1])  # Serialized is a top-level wrapper, it does not nest
    if k == "bf":
        d = 1
        for f in T[2]:
            if f[0] == "sub":
                d = max(d, 1 + depth(f[1]))
        return d
    raise ValueError(T)


def canon(T) -> str:
    """compact readable identity of a composition (used in finding keys)"""
    k = T[0]
    if k in ("bit", "bool"):
        return k
    if k in ("bv", "u", "s"):
        return f"{k}{T[1]}"
    if k in ("bvW", "uW", "sW"):
        return k
    if k == "enum":
        return f"{'flag' if T[1] else 'enum'}<{canon(T[2])}:{','.join(map(str, T[3]))}>"
    if k in ("sfix", "ufix"):
        return f"{k}[{T[1]}:{T[2]}]"
    if k in ("carr", "sarr"):
        return f"{k}[{canon(T[1])},{T[2]}]"
    if k == "rec":
        fs = [canon(f) for f in T[1]]
        if len(T[2]) == 1:
            return "rec(" + ",".join(fs) + ")"
        out, i = [], 0
        for n in T[2]:
            out.append(",".join(fs[i:i + n]))
            i += n
        return "rec(" + "|".join(out) + ")"      # '|' separates inheritance levels, base first
    if k == "tp":
        return f"tp{T[1]}"
    if k in ("trec", "ttrec"):
        fs = [canon(f) for f in T[1]]
        split = T[3] if len(T) > 3 else (len(T[1]),)
        arg = str(T[2]) if k == "trec" else ",".join(canon(a) for a in T[2])
        if len(split) == 1:
            body = ",".join(fs)
        else:
            out, i = [], 0
            for n in split:
                out.append(",".join(fs[i:i + n]))
                i += n
            body = "|".join(out)
        return f"{k}<{arg}>({body})"
    if k == "trecW":
        return "trecW(" + ",".join(canon(f) for f in T[1]) + ")"
    if k == "ser":
        return f"ser[{canon(T[1])}]"
    if k == "bf":
        fs = []
        for f in T[2]:
            if f[0] == "fb":
                fs.append(f"{f[1]}")
            elif f[0] == "fv":
                fs.append(f"{f[1]}:{f[2]}{'' if f[3] == 'bv' else f[3]}")
            else:
                fs.append(f"{canon(f[1])}@{f[2]}{'s' if f[3] else ''}")
        return f"bf{T[1]}(" + ",".join(fs) + ")"
    raise ValueError(T)


# ----------------------------------------------------------------------------------------------
# container constructors over a given element alphabet
# ----------------------------------------------------------------------------------------------
def carrs(elems, counts=(2,)):
    for e in elems:
        if e[0] in PRIMITIVE or e[0] == "carr":
            for n in counts:
                yield ("carr", e, n)


def sarrs(elems, counts=(2, 3)):
    for e in elems:
        for n in counts:
            yield ("sarr", e, n)


def recs(elems, nfields=(2, 3), need=None, splits_for=None):
    """all ordered field tuples; `need`: set of elements of which at least one must occur;
    splits_for(n) -> inheritance splits to emit for a record of n fields (default: plain only)"""
    for n in nfields:
        for fs in itertools.product(elems, repeat=n):
            if need is not None and not any(f in need for f in fs):
                continue
            for sp in (splits_for(n) if splits_for else ((n,),)):
                yield ("rec", fs, sp)


def plain_split(n):
    return ((n,),)


def inherit_splits(n):
    """plain + every way to distribute the n fields over 2 classes (incl. an empty derived class /
    an empty base class) + the 3-level chain for n == 3"""
    out = [(n,)]
    for a in range(0, n + 1):
        out.append((a, n - a))
    if n >= 3:
        out.append((1, 1, n - 2))
    if n == 2:
        out.append((1, 0, 1))
    return tuple(out)


def only_inherited(n):
    return tuple(s for s in inherit_splits(n) if len(s) > 1)


# templated record shapes: fields may use the template argument W
TREC_SHAPES = (
    (BIT, ("bvW",)),
    (("uW",), BIT, ("sW",)),
    (("bvW",), BOOL),
    (("trecW", (BIT, ("bvW",))), ("bvW",)),                             # nested, passes W on
    (("trecW", (("uW",), BIT)), ("trec", (BIT, ("bvW",)), 2), BIT),     # nested with W and with a fixed arg
    (("sarr", ("bvW",), 2), BIT),
)


def trecs(ws=(1, 2, 3), shapes=TREC_SHAPES):
    for sh in shapes:
        for w in ws:
            yield ("trec", sh, w)


def tinherits(thorough=False):
    """templated records whose template DECLARATIONS inherit from each other (1-3 levels, fields on several levels,
    empty base / empty derived declarations included)"""
    # int template argument
    fw = (BIT, ("bvW",), ("sW",)) if not thorough else (BIT, ("bvW",), ("uW",), ("sW",))
    for n in (2, 3):
        if n == 3 and not thorough:
            fw = (BIT, ("bvW",))
        for fs in itertools.product(fw, repeat=n):
            if not any(f[0] in ("bvW", "uW", "sW") for f in fs):
                continue
            for sp in only_inherited(n):
                for w in (((1, 2, 3) if n == 2 else (2, 3)) if thorough else (2,)):
                    yield ("trec", fs, w, sp)
            if not thorough and n == 2:
                yield ("trec", fs, 3, (1, 1))
    # nested templated record inside an inherited template declaration
    inner = ("trecW", (BIT, ("bvW",)))
    for fs in ((inner, ("bvW",)), (("bvW",), inner), (BIT, inner, ("uW",))):
        for sp in only_inherited(len(fs)):
            for w in (1, 2):
                yield ("trec", fs, w, sp)
    # type template arguments (@std.TemplateArg with two type members)
    targs = ((BV(3), U2), (BIT, S2), (("rec", (BIT, BV(2)), (2,)), BOOL))
    if thorough:
        targs += ((("sarr", BV(2), 2), ENUM_U2), (UFIX_0_m1, BV(1)))
    for n in (2, 3):
        ft = (("tp", 0), ("tp", 1), BIT) if (not thorough or n == 3) else (("tp", 0), ("tp", 1), BIT, BV(2))
        for fs in itertools.product(ft, repeat=n):
            if not any(f[0] == "tp" for f in fs):
                continue
            if n == 3 and not thorough and not ({("tp", 0), ("tp", 1)} <= set(fs)):
                continue
            for sp in (inherit_splits(n) if thorough else only_inherited(n) if n == 2 else ((1, 2), (2, 1), (1, 1, 1))):
                for ta in (targs if (thorough and n == 2) else targs[:3] if thorough else targs[:2] if n == 2 else targs[:1]):
                    yield ("ttrec", fs, ta, sp)


# bit fields ------------------------------------------------------------------------------------
BF_INNER3 = ("bf", 3, (("fb", 0), ("fv", 2, 1, "s")))
BF_INNER2 = ("bf", 2, (("fv", 1, 0, "bv"), ("fb", 1)))


def bitfields(thorough=False):
    """flat bit fields: every pair / triple drawn from the members below that fits the width; nested ones"""
    out = []
    for w in ((3, 4) if not thorough else (2, 3, 4, 5)):
        members = [("fb", i) for i in range(w)]
        for hi in range(w):
            for lo in range(hi + 1):
                members.append(("fv", hi, lo, "bv"))
        typed = []
        for hi in range(1, w):
            for lo in range(hi):
                typed.append(("fv", hi, lo, "u"))
                typed.append(("fv", hi, lo, "s"))
        # singles of every member kind; all ordered pairs of untyped members for the small widths
        for m in members + typed:
            out.append(("bf", w, (m,)))
        if w <= (3 if not thorough else 4):
            for a, b in itertools.product(members, repeat=2):
                out.append(("bf", w, (a, b)))
        else:
            for a, b in itertools.product(members[:w] + typed[:4], repeat=2):
                out.append(("bf", w, (a, b)))
    # nested bit fields: inner at every legal offset, integer and slice form; two levels
    for inner in (BF_INNER3, BF_INNER2):
        iw = inner[1]
        for w in (iw, iw + 1, iw + 3):
            for off in range(0, w - iw + 1):
                for sl in (False, True):
                    out.append(("bf", w, (("fb", w - 1), ("sub", inner, off, sl))))
    mid = ("bf", 5, (("sub", BF_INNER3, 2, False), ("sub", BF_INNER2, 0, True), ("fv", 4, 1, "u")))
    for off in (0, 1, 3):
        out.append(("bf", 8, (("sub", mid, off, False), ("sub", BF_INNER3, 5, True), ("fv", 7, 0, "bv"))))
    seen, res = set(), []
    for b in out:
        if b not in seen:
            seen.add(b)
            res.append(b)
    return res


# ----------------------------------------------------------------------------------------------
def _dedupe(seq):
    seen = set()
    for x in seq:
        if x not in seen:
            seen.add(x)
            yield x


def family(thorough: bool):
    """The complete (seed independent) family of a tier.  Returns list of (stratum, T).

    nesting 1: every container kind over the FULL atom alphabet (3-field and inherited records over reduced ones)
    nesting 2: every container kind over {inner types of nesting 1 built from a reduced alphabet} u atoms
    nesting 3 (thorough): every container kind over {inner types of nesting 2 built from the tiny alphabet}
    Serialized[T]: wrapper over every atom, every inner type and a slice of the nesting-2 compositions
    """
    from ..ref.c17_layout import width

    maxw = 10 if thorough else 8
    out = []

    def add(stratum, it):
        for T in it:
            if width(T) <= maxw:
                out.append((stratum, T))

    A = ATOMS_FULL
    tiny = ATOMS_TINY + (BOOL,)
    add("L0", A)

    # ---- nesting 1 -----------------------------------------------------------------------
    add("L1.carr", carrs(A, (1, 2, 3)))
    add("L1.sarr", sarrs(A))
    add("L1.rec1", (("rec", (a,), (1,)) for a in A))          # single-field records
    add("L1.sarr", sarrs(A, (1,)))                            # one-element std.Array
    add("L1.rec2", recs(A, (2,)))
    add("L1.rec3", recs(ATOMS_SMALL + (S2,) if not thorough else ATOMS_MID + (FLAG_BV3, SFIX_1_m1), (3,)))
    if not thorough:
        add("L1.inherit", recs(ATOMS_SMALL + (S2,), (2,), splits_for=only_inherited))
        add("L1.inherit", recs(ATOMS_TINY, (3,), splits_for=only_inherited))
    else:
        add("L1.inherit", recs(ATOMS_FULL, (2,), splits_for=only_inherited))
        add("L1.inherit", recs(ATOMS_SMALL + (S2,), (3,), splits_for=only_inherited))
    add("L1.trec", trecs())
    tin = list(tinherits(thorough))
    add("L1.tinherit", tin)
    add("L1.bf", bitfields(thorough))

    # records with core cohdl.Array fields (the array construction forms - partial default lists, Null, Full -
    # are applied to every composition made of plain records, cohdl.Array and atoms, see c17_render.ad_eligible)
    cf = (("carr", BIT, 2), ("carr", BV(2), 2), ("carr", BV(2), 3), ("carr", S2, 1))
    cset = set(cf)
    add("L2.carrrec", recs((BIT, BV(2), BOOL) + cf, (2,), need=cset))
    add("L2.carrrec", (("rec", fs, (1, 1)) for a in cf for p in (BIT, BV(2)) for fs in ((a, p), (p, a))))
    if thorough:
        add("L2.carrrec", recs((BIT, BV(2)) + cf[:2], (3,), need=cset))
        add("L2.carrrec", recs((ENUM_U2, UFIX_0_m1, U2) + cf[:3], (2,), need=cset))

    # ---- nesting 2 -----------------------------------------------------------------------
    bf_repr = (("bf", 4, (("fb", 0), ("fv", 3, 1, "bv"), ("fv", 2, 1, "u"))), BF_INNER3)
    if not thorough:
        inner_atoms = ATOMS_SMALL + (ENUM_U2,)
        L1m = list(_dedupe(itertools.chain(
            carrs((BIT, BV(2))), sarrs(inner_atoms, (2,)), sarrs(ATOMS_TINY, (3,)),
            recs(ATOMS_SMALL, (2,)), (t for t in recs(tiny, (3,)) if width(t) <= 5),
            (("rec", (BIT, BV(2)), (1, 1)), ("rec", (BV(2), BOOL, BIT), (1, 2)), ("rec", (BV(3), BIT), (2, 0))),
            trecs((2,), TREC_SHAPES[:2]), bf_repr)))
        partner = ATOMS_SMALL
    else:
        inner_atoms = ATOMS_MID
        L1m = list(_dedupe(itertools.chain(
            carrs((BIT, BV(2), S2, BV(3))), sarrs(inner_atoms, (2,)), sarrs(ATOMS_SMALL, (3,)),
            recs(ATOMS_SMALL + (S2, ENUM_U2), (2,)), (t for t in recs(ATOMS_SMALL, (3,)) if width(t) <= 6),
            recs(tiny, (2,), splits_for=only_inherited),
            trecs((1, 2), TREC_SHAPES[:3]), bf_repr)))
        partner = A
    L1m = [t for t in L1m if width(t) <= maxw - 1]
    L1set = set(L1m)
    # a spread of representatives (one per kind / width) for the quadratic strata
    rep = []
    for t in L1m:
        sig = (t[0], width(t), t[2] if t[0] in ("carr", "sarr") else len(t[1]) if t[0] in ("rec",) else 0)
        if sig not in [r[0] for r in rep]:
            rep.append((sig, t))
    L1rep = [t for _, t in rep]
    add("L2.carr", carrs(L1m))
    add("L2.sarr", sarrs(L1m))
    add("L2.rec2", (("rec", fs, (2,)) for a in L1m for p in partner for fs in ((a, p), (p, a))))
    if thorough:
        add("L2.rec2", recs(tuple(L1rep), (2,)))
    else:
        kinds = []
        for t in L1rep:          # one representative per (kind, arity) for the all-pairs part
            sig = (t[0], t[2] if t[0] in ("carr", "sarr") else len(t[1]) if t[0] == "rec" else 0)
            if sig not in [k for k, _ in kinds]:
                kinds.append((sig, t))
        add("L2.rec2", recs(tuple(t for _, t in kinds), (2,)))
    small1 = [t for t in L1rep if width(t) <= 4 and t[0] != "trec"]
    t3 = tiny if thorough else ATOMS_TINY
    add("L2.rec3", (("rec", fs, (3,)) for a in small1 for p in t3 for q in t3 for fs in ((a, p, q), (p, a, q), (p, q, a))))
    inh1 = [t for t in L1rep if t[0] in ("sarr", "rec", "carr") and width(t) <= 4]
    if thorough:
        add("L2.inherit", recs(tuple(inh1) + ATOMS_TINY, (2,), need=set(inh1), splits_for=only_inherited))
    else:
        add("L2.inherit", (("rec", fs, s) for a in inh1 for p in ATOMS_TINY for fs in ((a, p), (p, a))
                           for s in ((1, 1), (0, 2), (2, 0))))
    add("L2.trec", (("trec", (f, ("bvW",)), w) for f in inh1 for w in (1, 2)))
    add("L2.trec", (("trec", (("sarr", ("trecW", (BIT, ("bvW",))), 2), f), w) for f in ATOMS_SMALL for w in (1, 2)))
    # templated + inherited records as elements / fields
    tin_rep = [t for t in tin if width(t) <= 4 and len(t[3]) > 1][:: (8 if thorough else 9)]
    add("L2.tinherit", sarrs(tin_rep, (2,)))
    add("L2.tinherit", (("rec", fs, (2,)) for a in tin_rep for p in ATOMS_TINY for fs in ((a, p), (p, a))))
    add("L2.tinherit", (("trec", (a, ("bvW",), BIT), 2, sp) for a in inh1[:6] for sp in ((1, 2), (2, 1), (1, 1, 1))))

    if thorough:
        # ---- nesting 3 -------------------------------------------------------------------
        L1t = list(_dedupe(itertools.chain(carrs(ATOMS_TINY), sarrs(tiny, (2,)), recs(tiny, (2,)),
                                            trecs((1,), TREC_SHAPES[:1]), (BF_INNER2,))))
        L2t = list(_dedupe(itertools.chain(
            carrs(L1t), sarrs(L1t, (2,)),
            (("rec", fs, (2,)) for a in L1t for p in tiny for fs in ((a, p), (p, a))),
            recs(tuple(L1t[:8]), (2,)),
            (("rec", (a, p), s) for a in L1t[:8] for p in ATOMS_TINY for s in ((1, 1), (2, 0))))))
        L2t = [t for t in L2t if width(t) <= maxw - 1]
        add("L3.carr", carrs(L2t))
        add("L3.sarr", sarrs(L2t, (2,)))
        add("L3.rec2", (("rec", fs, (2,)) for a in L2t for p in ATOMS_SMALL + (S2,) for fs in ((a, p), (p, a))))
        small2 = [t for t in L2t if width(t) <= 6][::3]
        add("L3.rec2", (("rec", (a, b), (2,)) for a in small2 for b in L1t[:10]))
        add("L3.inherit", (("rec", (a, p), s) for a in small2 for p in ATOMS_TINY for s in ((1, 1), (0, 2))))
        add("L3.trec", (("trec", (a, ("bvW",)), 1) for a in small2))

    # ---- Serialized[T] ---------------------------------------------------------------------
    l2 = [t for s, t in out if s.startswith("L2.")]
    ser_base = list(A) + L1m + l2[:: (4 if thorough else 9)]
    add("ser", (("ser", t) for t in _dedupe(ser_base)))

    seen, res = set(), []
    for s, t in out:
        if t not in seen:
            seen.add(t)
            res.append((s, t))
    return res

"""C11 history-tree driver.  Runs as a stand-alone script in a *fresh* interpreter:

    PYTHONHASHSEED=<n> /venv/bin/python /verif/verif/gen/c11_tree.py <spec.json> <result.json>

It deliberately imports nothing from the verif package (only stdlib + cohdl), so that the process-wide
compiler state it explores is exactly that of a user session.  No compiler state is ever reset here.

spec = {
  "moddir":  directory with c11_<key>.py module files,
  "letters": {name: [module key, build arg]}   (module key "@<dotted module>" = upstream reference design
             under <cohdl tree>/tests, imported with cocotb stubbed, last module-level test_* entity class),
  "order":   [letter names]  (alphabet order used for the tree),
  "mode":    "reuse" (a module is imported once per interpreter, the same class object is compiled again)
           | "fresh" (every compilation imports a new copy of the module file),
  "prefix":  [letter names] compiled first in this process (no fork),
  "depth":   maximal history length (>= len(prefix)); the subtree below the prefix is explored with os.fork(),
  "golden":  {name: {"ok": bool, "text": str | None, "exc": str | None}} | None  (None: record full outputs),
  "golden_file": path of a json file with the golden table (alternative to "golden"),
  "count_prefix": false -> the prefix nodes are executed but not counted/compared (they belong to another task),
  "leaf_order": [letters] | None -> at the last level only these letters and the letters occurring in the history
             are compiled (victims),
  "count_prefix_all": true -> every prefix node is counted/compared (linear histories, e.g. alternations),
  "gc_between": true -> gc.collect() after every prefix compilation,
  "count_min_len": n -> histories shorter than n are executed but not counted/compared (covered by another stratum),
  "prealloc": number of objects allocated (and kept alive) before importing cohdl / the design,
  "record":  bool  -> also return the complete outcome of every prefix compilation (golden/variant runs)
}

A *node* is a history (sequence of letters).  Executing a node = performing the last compilation of
the history in a process whose state is the result of the preceding ones (a fork of the parent node).
"""
import hashlib
import importlib.util
import json
import os
import sys

_KEEP = []
_MODS = {}
_COUNTER = [0]


def _prealloc(n):
    # perturb the allocator: objects of several size classes, kept alive, some freed again (holes)
    junk = []
    for i in range(n):
        junk.append([i] * (i % 7))
        junk.append({"k%d" % i: i})
        junk.append(object())
    del junk[::3]
    _KEEP.append(junk)


_STUBS = ["cocotb", "cocotb.clock", "cocotb.triggers", "cocotb.binary", "cocotb_test", "cocotb_test.simulator",
          "cocotbext", "cocotbext.axi", "cocotbext.spi", "cocotbext.uart", "cocotb.types", "cocotb.handle",
          "cocotb.utils", "cocotb.result"]


class _Any:
    def __init__(self, *a, **k):
        pass

    def __call__(self, *a, **k):
        if len(a) == 1 and callable(a[0]) and not k:
            return a[0]
        return _Any()

    def __getattr__(self, n):
        return _Any()

    def __mro_entries__(self, bases):
        return (object,)


def _corpus_setup():
    """make the upstream reference designs importable without cocotb (test benches are never run)"""
    if _MODS.get("@setup"):
        return
    import types
    import cohdl

    tests = os.path.join(os.path.dirname(os.path.dirname(os.path.abspath(cohdl.__file__))), "tests")
    sys.path.insert(0, tests)
    for name in _STUBS:
        m = types.ModuleType(name)

        def _ga(n):
            if n.startswith("__"):
                raise AttributeError(n)
            return _Any()

        m.__getattr__ = _ga
        m.__path__ = []
        sys.modules[name] = m
    _MODS["@setup"] = True


def _corpus_entity(modname):
    import importlib
    import cohdl

    _corpus_setup()
    m = importlib.import_module(modname)
    own = [(k, v) for k, v in vars(m).items()
           if isinstance(v, type) and issubclass(v, cohdl.Entity) and v.__module__ == m.__name__]
    ents = [v for k, v in own if k.startswith("test_")] or [v for k, v in own]
    if not ents:
        raise LookupError("no module-level entity class")
    return ents[-1]


def _load(spec, key):
    path = os.path.join(spec["moddir"], "c11_%s.py" % key)
    if spec["mode"] == "reuse":
        if key in _MODS:
            return _MODS[key]
        name = "c11_%s" % key
    else:
        _COUNTER[0] += 1
        name = "c11_%s_%d_%d" % (key, os.getpid(), _COUNTER[0])
    sp = importlib.util.spec_from_file_location(name, path)
    mod = importlib.util.module_from_spec(sp)
    sys.modules[name] = mod
    sp.loader.exec_module(mod)
    if spec["mode"] == "reuse":
        _MODS[key] = mod
    return mod


# --- performance device only (same as verif.core.deep_call, duplicated because this script is stand-alone):
# run f below one frame with ~140k unused local slots, so that CPython keeps one big frame-stack chunk instead
# of mmap/munmap-ing 16 KiB chunks thousands of times per compilation.  Semantics of f are untouched.
_BIG = []


def _tpl(f, *a):
    return f(*a)


def deep_call(f, *a):
    if not _BIG:
        import types

        c = _tpl.__code__
        names = c.co_varnames + tuple("_pad%d" % i for i in range(140000))
        _BIG.append(types.FunctionType(c.replace(co_varnames=names, co_nlocals=len(names)), globals()))
    return _BIG[0](f, *a)


def compile_letter(spec, letter):
    return deep_call(_compile_letter, spec, letter)


def _compile_letter(spec, letter):
    """One compilation on the real process-wide state.  Returns {"ok", "text", "exc", "msg"}."""
    from cohdl import std

    key, arg = spec["letters"][letter]
    try:
        kwargs = {}
        if key.startswith("@"):
            ent = _corpus_entity(key[1:])
        else:
            mod = _load(spec, key)
            ent = mod.build(arg)
            kwargs = dict(getattr(mod, "COMPILE_KWARGS", {}))  # e.g. additional_reserved_names
        text = std.VhdlCompiler.to_string(ent, **kwargs)
        if not isinstance(text, str):
            return {"ok": False, "text": None, "exc": "<non-str result>", "msg": repr(type(text))}
        return {"ok": True, "text": text, "exc": None, "msg": None}
    except (KeyboardInterrupt, SystemExit, MemoryError):
        raise
    except BaseException as e:  # cohdl rejects with AssertionError and friends
        msg = str(e).strip().splitlines()[0][:160] if str(e).strip() else ""
        return {"ok": False, "text": None, "exc": type(e).__name__, "msg": msg}


def _first_diff(a, b):
    la, lb = a.splitlines(), b.splitlines()
    for i, (x, y) in enumerate(zip(la, lb)):
        if x != y:
            return {"line": i + 1, "golden": x.strip()[:120], "got": y.strip()[:120]}
    return {"line": min(len(la), len(lb)) + 1, "golden": "<%d lines>" % len(la), "got": "<%d lines>" % len(lb)}


def compare(golden, letter, out):
    """None if the outcome equals the golden outcome, else a small deviation record."""
    g = golden[letter]
    if g["ok"]:
        if out["ok"]:
            if out["text"] == g["text"]:
                return None
            return {"kind": "altered", "sig": "accepted with different bytes", "detail": _first_diff(g["text"], out["text"]),
                    "sha": hashlib.sha1(out["text"].encode()).hexdigest()[:12]}
        return {"kind": "prevented", "sig": "rejected:%s:%s" % (out["exc"], out["msg"]), "detail": None}
    # golden: rejected.  Oracle = rejected again with the same exception class (message may differ)
    if out["ok"]:
        return {"kind": "accepted_after", "sig": "accepted (golden: rejected %s)" % g["exc"], "detail": None,
                "sha": hashlib.sha1(out["text"].encode()).hexdigest()[:12]}
    if out["exc"] != g["exc"]:
        return {"kind": "other_exception", "sig": "rejected:%s:%s (golden %s)" % (out["exc"], out["msg"], g["exc"]),
                "detail": None}
    return None


def new_stats():
    return {"nodes": 0, "compared": 0, "msg_differs": 0, "deviations": [], "errors": [],
            "accepted": 0, "rejected": 0, "max_depth": 0}


def merge(a, b):
    for k in ("nodes", "compared", "msg_differs", "accepted", "rejected"):
        a[k] += b[k]
    a["max_depth"] = max(a["max_depth"], b["max_depth"])
    a["deviations"].extend(b["deviations"])
    a["errors"].extend(b["errors"])
    return a


def visit(spec, history, letter, stats, counted=True):
    """Perform the compilation `letter` in this process (state = after `history`) and check it."""
    out = compile_letter(spec, letter)
    golden = spec.get("golden")
    if len(history) + 1 < int(spec.get("count_min_len") or 0):
        counted = False  # shorter histories of this tree are counted by another stratum
    if counted:
        stats["nodes"] += 1
        stats["max_depth"] = max(stats["max_depth"], len(history) + 1)
        stats["accepted" if out["ok"] else "rejected"] += 1
    if golden is not None and counted:
        stats["compared"] += 1
        dev = compare(golden, letter, out)
        if dev is not None:
            dev["history"] = list(history)
            dev["victim"] = letter
            stats["deviations"].append(dev)
        elif not out["ok"] and out["msg"] != golden[letter].get("msg"):
            stats["msg_differs"] += 1
    return out


def explore(spec, history, depth_left, stats):
    """Explore all extensions of `history` (this process holds the state after `history`)."""
    if depth_left <= 0:
        return
    cands = spec["order"]
    if depth_left == 1 and spec.get("leaf_order") is not None:
        # last level restricted to the listed victims plus every letter that already occurs in the history
        keep = set(spec["leaf_order"]) | set(history)
        cands = [l for l in cands if l in keep]
    for letter in cands:
        r, w = os.pipe()
        pid = os.fork()
        if pid == 0:
            code = 0
            try:
                os.close(r)
                sub = new_stats()
                try:
                    visit(spec, history, letter, sub)
                    explore(spec, history + [letter], depth_left - 1, sub)
                except BaseException as e:  # noqa
                    sub["errors"].append("child %s: %s: %s" % (history + [letter], type(e).__name__, str(e)[:200]))
                data = json.dumps(sub).encode()
                with os.fdopen(w, "wb") as f:
                    f.write(data)
            except BaseException:
                code = 3
            finally:
                os._exit(code)
        os.close(w)
        chunks = []
        with os.fdopen(r, "rb") as f:
            while True:
                b = f.read(1 << 16)
                if not b:
                    break
                chunks.append(b)
        _, status = os.waitpid(pid, 0)
        try:
            sub = json.loads(b"".join(chunks).decode())
            merge(stats, sub)
        except Exception as e:  # noqa
            stats["errors"].append("no result from child %s (status %s): %s" % (history + [letter], status, e))
        if status != 0:
            stats["errors"].append("child %s exit status %s" % (history + [letter], status))


def main():
    spec_path, result_path = sys.argv[1], sys.argv[2]
    with open(spec_path) as f:
        spec = json.load(f)
    if spec.get("golden_file"):
        with open(spec["golden_file"]) as f:
            allg = json.load(f)
        spec["golden"] = {k: allg[k] for k in spec["letters"]}
    # keep the result channel clean whatever the compiler prints
    devnull = os.open(os.devnull, os.O_WRONLY)
    os.dup2(devnull, 1)
    if not spec.get("keep_stderr"):
        os.dup2(devnull, 2)
    n = int(spec.get("prealloc") or 0)
    if n:
        _prealloc(n)
    import cohdl  # noqa: F401  (after the first perturbation on purpose)
    from cohdl import std  # noqa: F401
    deep_call(int)  # build the big frame once, before any fork
    if n:
        _prealloc(n // 2 + 1)

    stats = new_stats()
    recorded = []
    prefix = list(spec.get("prefix") or [])
    order = spec["order"]
    hist = []
    for d, letter in enumerate(prefix):
        # a prefix node is shared by several tasks; it is counted by the task whose remaining
        # prefix letters are all the first letter of the alphabet
        owned = all(x == order[0] for x in prefix[d + 1:]) or bool(spec.get("count_prefix_all"))
        out = visit(spec, hist, letter, stats,
                    counted=(owned and spec.get("count_prefix", True)) or spec.get("golden") is None)
        if spec.get("record"):
            recorded.append({"letter": letter, **out})
        hist.append(letter)
        if spec.get("gc_between"):
            import gc

            gc.collect()  # the objects of the previous build are garbage (a user session may do this, too)
    stats["prefix_recompilations"] = len(prefix)
    explore(spec, hist, int(spec.get("depth", len(prefix))) - len(prefix), stats)
    stats["recorded"] = recorded
    stats["hashseed"] = os.environ.get("PYTHONHASHSEED")
    with open(result_path, "w") as f:
        json.dump(stats, f)


if __name__ == "__main__":
    main()

"""C10 family (a): every signature x every call shape x every function placement, up to a bound.

Signature: <= N parameters named a, b, c in order, kinds p (positional-only) <= k (positional-or-keyword)
<= w (keyword-only), each with or without default (defaults of positional parameters form a suffix, as the
grammar demands), optional *va, optional **kw.  Defaults are 91, 92, 93; positional actuals 1, 2, 3; keyword
actuals 11, 12, 13 (by parameter), the wrong name z gets 99; the duplicate-keyword shapes add 21...: so the
returned tuple shows where every value came from.

Call shape: 0..3 positional actuals x any subset of {parameter names, z} as keywords x spread variants
    positional:  D  1, 2, 3        S  *(1, 2, 3)        M  1, *[2, 3]
    keywords:    D  a=11, b=12     S  **{'a': 11, 'b': 12}    M  a=11, **{'b': 12}
                 X  a=11, b=12, **{'a': 21}  (duplicate through a spread: CPython TypeError)
                 Y  **{'a': 11, 'b': 12}, **{'a': 21}
Placements: def (module level), closure (made by a factory, default taken from the factory's local), method (bound),
lambda (module level), localdef / locallambda (defined inside the traced function); thorough adds classmethod,
staticmethod, __call__, unbound (C.m(obj, ...)), nested (closure inside a traced closure).
"""
from __future__ import annotations

import itertools

from .c10_common import case

NAMES = "abc"
POS_VAL = (1, 2, 3)
KW_VAL = {"a": 11, "b": 12, "c": 13, "z": 99}
DUP_VAL = {"a": 21, "b": 22, "c": 23, "z": 29}
DEFAULT = {"a": 91, "b": 92, "c": 93}

PLACEMENTS_BASE = ("def", "closure", "method", "lambda", "localdef", "locallambda")
PLACEMENTS_EXTRA = ("classmethod", "staticmethod", "call", "unbound", "nested")


def signatures(nmax):
    """yield (params, vararg, kwarg); params = tuple of (name, kind, has_default)"""
    for n in range(nmax + 1):
        for kinds in itertools.combinations_with_replacement("pkw", n):
            npos = sum(1 for k in kinds if k != "w")
            nkw = n - npos
            for ndef in range(npos + 1):  # number of trailing positional defaults
                for kwdef in itertools.product((False, True), repeat=nkw):
                    params = []
                    for i, k in enumerate(kinds):
                        if k == "w":
                            d = kwdef[i - npos]
                        else:
                            d = i >= npos - ndef
                        params.append((NAMES[i], k, d))
                    for vararg in (False, True):
                        for kwarg in (False, True):
                            yield tuple(params), vararg, kwarg


def sig_text(params, vararg, kwarg, default_expr=None):
    """parameter list source; default_expr(name) -> source of the default value"""
    default_expr = default_expr or (lambda n: str(DEFAULT[n]))
    out = []
    kinds = [k for _, k, _ in params]
    star_done = False
    for i, (name, kind, d) in enumerate(params):
        if kind == "w" and not star_done:
            out.append("*va" if vararg else "*")
            star_done = True
        out.append(f"{name}={default_expr(name)}" if d else name)
        if kind == "p" and (i + 1 == len(params) or kinds[i + 1] != "p"):
            out.append("/")
    if vararg and not star_done:
        out.append("*va")
    if kwarg:
        out.append("**kw")
    return ", ".join(out)


def sig_key(params, vararg, kwarg):
    s = ",".join(f"{k}{n}{'=' if d else ''}" for n, k, d in params)
    return s + ("+*" if vararg else "") + ("+**" if kwarg else "")


def ret_text(params, vararg, kwarg, first=None):
    elems = ([first] if first else []) + [n for n, _, _ in params]
    if vararg:
        elems.append("va")
    if kwarg:
        elems.append("kw")
    return "(" + "".join(e + ", " for e in elems) + ")"


def _dict_text(names, vals):
    return "{" + ", ".join(f"'{n}': {vals[n]}" for n in names) + "}"


def call_shapes(params, dup_shapes=False):
    """yield (key, argument source, has_duplicate_keyword); dup_shapes selects the X/Y forms only (D positionals)"""
    names = [n for n, _, _ in params] + ["z"]
    pos_forms = []
    for npos in range(4):
        vals = POS_VAL[:npos]
        pos_forms.append((f"{npos}D", [str(v) for v in vals]))
        if npos >= 1:
            pos_forms.append((f"{npos}S", ["*(" + "".join(f"{v}, " for v in vals) + ")"]))
        if npos >= 2:
            pos_forms.append((f"{npos}M", [str(vals[0]), "*[" + ", ".join(str(v) for v in vals[1:]) + "]"]))
    kw_forms = []
    for r in range(len(names) + 1):
        for sub in itertools.combinations(names, r):
            tag = "".join(sub)
            if r == 0:
                if not dup_shapes:
                    kw_forms.append(("-", [], False))
                continue
            if not dup_shapes:
                kw_forms.append((tag + ":D", [f"{n}={KW_VAL[n]}" for n in sub], False))
                kw_forms.append((tag + ":S", ["**" + _dict_text(sub, KW_VAL)], False))
                if r >= 2:
                    kw_forms.append((tag + ":M", [f"{sub[0]}={KW_VAL[sub[0]]}", "**" + _dict_text(sub[1:], KW_VAL)], False))
                continue
            kw_forms.append((tag + ":X", [f"{n}={KW_VAL[n]}" for n in sub] + ["**" + _dict_text(sub[:1], DUP_VAL)], True))
            kw_forms.append((tag + ":Y", ["**" + _dict_text(sub, KW_VAL), "**" + _dict_text(sub[:1], DUP_VAL)], True))
    if dup_shapes:
        pos_forms = [f for f in pos_forms if f[0].endswith("D")]
    for pk, pa in pos_forms:
        for kk, ka, dup in kw_forms:
            yield f"{pk}/{kk}", ", ".join(pa + ka), dup


def uses_default(params, vararg, kwarg, npos_given, kw_given):
    """does a successful CPython binding of this call take at least one default? (input feature used in keys)"""
    i = 0
    used = False
    for name, kind, d in params:
        if kind != "w" and i < npos_given:
            i += 1
            continue
        if kind != "p" and name in kw_given:
            continue
        if d:
            used = True
    return used


def place(placement, params, vararg, kwarg, args):
    """-> (defs, call) source for one placement"""
    st = sig_text(params, vararg, kwarg)
    rt = ret_text(params, vararg, kwarg)
    sep = ", " if st else ""
    if placement == "def":
        return f"def f__S__({st}):\n    return {rt}\n", f"f__S__({args})"
    if placement == "lambda":
        return f"f__S__ = lambda {st}: {rt}\n", f"f__S__({args})"
    if placement == "closure":
        # defaults and one returned value come from the enclosing function's locals
        stc = sig_text(params, vararg, kwarg, lambda n: "d" + n)
        rtc = ret_text(params, vararg, kwarg, first="tag")
        pre = "".join(f"    d{n} = {DEFAULT[n]}\n" for n, _, d in params if d)
        return (
            f"def mk__S__(tag):\n{pre}    def f({stc}):\n        return {rtc}\n    return f\nf__S__ = mk__S__('T')\n",
            f"f__S__({args})",
        )
    if placement == "method":
        rtm = ret_text(params, vararg, kwarg, first="self.t")
        return (
            f"class C__S__:\n    def __init__(self):\n        self.t = 'I'\n    def m(self{sep}{st}):\n        return {rtm}\n"
            f"o__S__ = C__S__()\n",
            f"o__S__.m({args})",
        )
    if placement == "unbound":
        rtm = ret_text(params, vararg, kwarg, first="self.t")
        a = f"o__S__, {args}" if args else "o__S__"
        return (
            f"class C__S__:\n    def __init__(self):\n        self.t = 'I'\n    def m(self{sep}{st}):\n        return {rtm}\n"
            f"o__S__ = C__S__()\n",
            f"C__S__.m({a})",
        )
    if placement == "classmethod":
        rtm = ret_text(params, vararg, kwarg, first="cls.t")
        return (
            f"class C__S__:\n    t = 'K'\n    @classmethod\n    def m(cls{sep}{st}):\n        return {rtm}\n",
            f"C__S__.m({args})",
        )
    if placement == "staticmethod":
        return (
            f"class C__S__:\n    @staticmethod\n    def m({st}):\n        return {rt}\no__S__ = C__S__()\n",
            f"o__S__.m({args})",
        )
    if placement == "call":
        rtm = ret_text(params, vararg, kwarg, first="self.t")
        return (
            f"class C__S__:\n    def __init__(self):\n        self.t = 'I'\n    def __call__(self{sep}{st}):\n        return {rtm}\n"
            f"o__S__ = C__S__()\n",
            f"o__S__({args})",
        )
    if placement == "localdef":
        return f"def case__S__():\n    def f({st}):\n        return {rt}\n    return f({args})\n", "case__S__()"
    if placement == "locallambda":
        return f"def case__S__():\n    f = lambda {st}: {rt}\n    return f({args})\n", "case__S__()"
    if placement == "nested":
        rtc = ret_text(params, vararg, kwarg, first="tag")
        return (
            f"def case__S__(tag):\n    def mk():\n        def f({st}):\n            return {rtc}\n        return f\n    return mk()({args})\n",
            "case__S__('T')",
        )
    raise ValueError(placement)


def _sig_cases(params, vararg, kwarg, placements, dup_shapes, mixed=True):
    """mixed=False leaves out the M (part direct, part spread) forms of positionals and keywords"""
    sk = sig_key(params, vararg, kwarg)
    for ck, args, dup in call_shapes(params, dup_shapes):
        if not mixed and ("M/" in ck or ck.endswith(":M")):
            continue
        npos = int(ck[0])
        kwpart = ck.split("/")[1]
        kw_given = set(kwpart.split(":")[0]) if kwpart != "-" else set()
        if dup:
            feat = "dupkw"
        elif uses_default(params, vararg, kwarg, npos, kw_given):
            feat = "dflt"
        else:
            feat = "plain"
        for pl in placements:
            defs, call = place(pl, params, vararg, kwarg, args)
            yield case(f"sig/{pl}/{feat}/{sk}/{ck}", defs, call, binding=True)


def cases(nmax, placements, nmin=0, dup_shapes=False):
    """dup_shapes=False: all call shapes without duplicate keywords; True: only the duplicate-keyword shapes"""
    for params, vararg, kwarg in signatures(nmax):
        if len(params) < nmin:
            continue
        yield from _sig_cases(params, vararg, kwarg, placements, dup_shapes)


# ---- work units: one (signature, placement) pair each, so that nothing big has to be pickled -------------
_SIGS = None


def _sigs():
    global _SIGS
    if _SIGS is None:
        _SIGS = list(signatures(3))
    return _SIGS


def _count_upto(n):
    return sum(1 for p, _, _ in _sigs() if len(p) <= n)


def tasks(thorough, seed):
    out = []

    def add(nmax, placements, dup=False, nmin=0, mixed=True):
        for i in range(_count_upto(nmin - 1) if nmin else 0, _count_upto(nmax)):
            for pl in placements:
                out.append(("sig", i, pl, dup, mixed))

    if thorough:
        add(3, PLACEMENTS_BASE + PLACEMENTS_EXTRA)
        add(2, PLACEMENTS_BASE, dup=True)
    else:
        # module-level def: every shape for <=2 parameters; 3 parameters without the mixed spread forms
        add(2, ("def",))
        add(3, ("def",), nmin=3, mixed=False)
        # the other placements differ in how the function object reaches the tracer, not in how a call is written
        add(2, PLACEMENTS_BASE[1:], mixed=False)
        add(1, ("def", "method"), dup=True)
        # seed-chosen extra stratum beyond the always-complete part: one of the thorough-only placements
        add(2, (PLACEMENTS_EXTRA[seed % len(PLACEMENTS_EXTRA)],), mixed=False)
    # signatures with more parameters have more call shapes: biggest units first keeps the pool's tail short
    out.sort(key=lambda d: -len(_sigs()[d[1]][0]))
    return out


def expand(desc):
    _, i, pl, dup, mixed = desc
    params, vararg, kwarg = _sigs()[i]
    return _sig_cases(params, vararg, kwarg, (pl,), dup, mixed)

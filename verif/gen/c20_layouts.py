"""C20: register-map layouts (CoHDL source text + a declarative description the reference model reads).

Every layout is an entity derived from `std.axi.axi4_light.addr_map_entity(addr_width=4)` whose architecture
connects a `reg32.AddrMap` through `Axi4Light.connect_addr_map`.  Stored register contents (MemWord / MemField /
FlagField) and notification pulses are exposed on output ports, hardware-side values come from input ports.

Description of a layout (plain picklable data):

    regs:   list of registers  {name, addr, cls, fields:[...], notify:[(event, port)]}
            field = {name, hi, lo, kind, ...}
                kind "mem"   stores what the bus writes (byte strobes honoured), value visible on `port`
                kind "hw"    bus writes have no effect; the value is the input port `hw` (same width)
                kind "flag"  single bit: set by writing '1' (in a strobed byte), cleared by the hardware side in the
                             clock in which input `clear` is '1'; visible on `port`
                kinds "win_addr"/"win_data": state of the user handler of an AddrRange window (last written relative
                             address / strobed merge of the written data); such a register has `words` > 1 and a
                             `read_tag` (reads return read_tag | relative address)
            bits of a word not covered by any field read as zero.
            `cls` names the cohdl class family ("MemWord", "Word", "Register") - used only for finding keys.
    hw:     list of (input port, width, tuple of values the environment may drive)
    unmapped: word addresses inside the 4-bit address space that no register covers
"""
from __future__ import annotations

HEADER = '''from __future__ import annotations
import cohdl
from cohdl import Port, Bit, BitVector, Unsigned, Null, Signal
from cohdl import std
from cohdl.std.axi import axi4_light as axi
from cohdl.std.reg import reg32
'''

# ----------------------------------------------------------------------------------------------------------
# L1  one MemWord
# ----------------------------------------------------------------------------------------------------------
SRC_MEMWORD = HEADER + '''
class Map(reg32.AddrMap):
    w0: reg32.MemWord[0x0]

    def _config_(self, e):
        self._e = e

    def _impl_concurrent_(self):
        self._e.o_w0 <<= self.w0.raw


class T(axi.addr_map_entity(addr_width=4)):
    o_w0 = Port.output(BitVector[32])

    def architecture(self):
        self.interface_connection().connect_addr_map(Map(self))
'''

L_MEMWORD = {
    "name": "memword",
    "source": SRC_MEMWORD,
    "regs": [
        {"name": "w0", "addr": 0x0, "cls": "MemWord", "notify": [],
         "fields": [{"name": "raw", "hi": 31, "lo": 0, "kind": "mem", "port": "o_w0", "default": 0}]},
    ],
    "hw": [],
    "unmapped": [0x4, 0x8, 0xC],
}

# ----------------------------------------------------------------------------------------------------------
# L2  two registers with Field / MemField / FlagField, notifications, one hole at 0x4
# ----------------------------------------------------------------------------------------------------------
SRC_FIELDS = HEADER + '''
class RegA(reg32.Register):
    lower: reg32.Field[15:0]
    upper: reg32.MemField[31:16, Null]

    def _config_(self, e):
        self._e = e

    def _impl_concurrent_(self):
        self.lower <<= self._e.hw_in
        self._e.o_ra_upper <<= self.upper.val()


class RegB(reg32.Register):
    cnt: reg32.MemField[7:0, Null]
    flag: reg32.FlagField[31]
    wr_note: reg32.PushOnNotify.Write
    rd_note: reg32.PushOnNotify.Read

    def _config_(self, e):
        self._e = e

    def _impl_concurrent_(self):
        self._e.o_rb_cnt <<= self.cnt.val()
        self._e.o_rb_flag <<= self.flag.is_set()
        self._e.o_rb_wr <<= bool(self.wr_note)
        self._e.o_rb_rd <<= bool(self.rd_note)

    def _impl_sequential_(self):
        if self._e.hw_clear:
            self.flag.clear()


class Map(reg32.AddrMap):
    ra: RegA[0x0]
    rb: RegB[0x8]

    def _config_(self, e):
        self.ra._config_(e)
        self.rb._config_(e)


class T(axi.addr_map_entity(addr_width=4)):
    hw_in = Port.input(BitVector[16])
    hw_clear = Port.input(Bit)
    o_ra_upper = Port.output(BitVector[16])
    o_rb_cnt = Port.output(BitVector[8])
    o_rb_flag = Port.output(Bit)
    o_rb_wr = Port.output(Bit)
    o_rb_rd = Port.output(Bit)

    def architecture(self):
        self.interface_connection().connect_addr_map(Map(self))
'''

L_FIELDS = {
    "name": "fields",
    "source": SRC_FIELDS,
    "regs": [
        {"name": "ra", "addr": 0x0, "cls": "Register", "notify": [],
         "fields": [{"name": "lower", "hi": 15, "lo": 0, "kind": "hw", "hw": "hw_in"},
                    {"name": "upper", "hi": 31, "lo": 16, "kind": "mem", "port": "o_ra_upper", "default": 0}]},
        {"name": "rb", "addr": 0x8, "cls": "Register", "notify": [("write", "o_rb_wr"), ("read", "o_rb_rd")],
         "fields": [{"name": "cnt", "hi": 7, "lo": 0, "kind": "mem", "port": "o_rb_cnt", "default": 0},
                    {"name": "flag", "hi": 31, "lo": 31, "kind": "flag", "port": "o_rb_flag", "clear": "hw_clear"}]},
    ],
    "hw": [("hw_in", 16, (0x0000, 0xBEEF)), ("hw_clear", 1, (0, 1))],
    "unmapped": [0x4, 0xC],
}

# ----------------------------------------------------------------------------------------------------------
# L3  array of two MemWords
# ----------------------------------------------------------------------------------------------------------
SRC_ARRAY = HEADER + '''
class Map(reg32.AddrMap):
    arr: reg32.Array[reg32.MemWord, 0x0:0x8:4]

    def _config_(self, e):
        self._e = e

    def _impl_concurrent_(self):
        self._e.o_a0 <<= self.arr[0].raw
        self._e.o_a1 <<= self.arr[1].raw


class T(axi.addr_map_entity(addr_width=4)):
    o_a0 = Port.output(BitVector[32])
    o_a1 = Port.output(BitVector[32])

    def architecture(self):
        self.interface_connection().connect_addr_map(Map(self))
'''

L_ARRAY = {
    "name": "array",
    "source": SRC_ARRAY,
    "regs": [
        {"name": "arr0", "addr": 0x0, "cls": "MemWord", "notify": [],
         "fields": [{"name": "raw", "hi": 31, "lo": 0, "kind": "mem", "port": "o_a0", "default": 0}]},
        {"name": "arr1", "addr": 0x4, "cls": "MemWord", "notify": [],
         "fields": [{"name": "raw", "hi": 31, "lo": 0, "kind": "mem", "port": "o_a1", "default": 0}]},
    ],
    "hw": [],
    "unmapped": [0x8, 0xC],
}

# ----------------------------------------------------------------------------------------------------------
# L4  nested RegFile: top-level MemWord, hole, RegFile{MemWord, read-only Word driven by hardware}
# ----------------------------------------------------------------------------------------------------------
SRC_NESTED = HEADER + '''
class Inner(reg32.RegFile, word_count=2):
    x: reg32.MemWord[0x0]
    y: reg32.Word[0x4]


class Map(reg32.AddrMap):
    top: reg32.MemWord[0x0]
    inner: Inner[0x8]

    def _config_(self, e):
        self._e = e

    def _impl_concurrent_(self):
        self._e.o_top <<= self.top.raw
        self._e.o_x <<= self.inner.x.raw
        self.inner.y <<= self._e.hw_y


class T(axi.addr_map_entity(addr_width=4)):
    hw_y = Port.input(BitVector[32])
    o_top = Port.output(BitVector[32])
    o_x = Port.output(BitVector[32])

    def architecture(self):
        self.interface_connection().connect_addr_map(Map(self))
'''

L_NESTED = {
    "name": "nested",
    "source": SRC_NESTED,
    "regs": [
        {"name": "top", "addr": 0x0, "cls": "MemWord", "notify": [],
         "fields": [{"name": "raw", "hi": 31, "lo": 0, "kind": "mem", "port": "o_top", "default": 0}]},
        {"name": "inner.x", "addr": 0x8, "cls": "MemWord", "notify": [],
         "fields": [{"name": "raw", "hi": 31, "lo": 0, "kind": "mem", "port": "o_x", "default": 0}]},
        {"name": "inner.y", "addr": 0xC, "cls": "Word", "notify": [],
         "fields": [{"name": "raw", "hi": 31, "lo": 0, "kind": "hw", "hw": "hw_y"}]},
    ],
    "hw": [("hw_y", 32, (0x00000000, 0x13572468))],
    "unmapped": [0x4],
}

# ----------------------------------------------------------------------------------------------------------
# L5  three-word AddrRange window (size not a power of two -> range-compare decode) directly followed by a MemWord
#     handler (user code of the design): reads return C0DE0000 | relative address; writes record the relative address
#     and merge the strobed bytes into one 32-bit "last data" register
# ----------------------------------------------------------------------------------------------------------
SRC_RANGE = HEADER + '''
class Win(reg32.AddrRange, word_count=3):
    def _config_(self, e):
        self._e = e
        self._last = Signal[BitVector[32]](Null)
        self._la = Signal[Unsigned[4]](Null)

    def _on_read_relative_(self, addr):
        return BitVector[28]("1100000011011110000000000000") @ addr.bitvector

    def _on_write_relative_(self, addr, data, mask):
        self._la <<= addr
        self._last <<= mask.apply(self._last, data)

    def _impl_concurrent_(self):
        self._e.o_win_addr <<= self._la
        self._e.o_win_data <<= self._last


class Map(reg32.AddrMap):
    win: Win[0x0]
    ctrl: reg32.MemWord[0xC]

    def _config_(self, e):
        self._e = e
        self.win._config_(e)

    def _impl_concurrent_(self):
        self._e.o_ctrl <<= self.ctrl.raw


class T(axi.addr_map_entity(addr_width=4)):
    o_win_addr = Port.output(Unsigned[4])
    o_win_data = Port.output(BitVector[32])
    o_ctrl = Port.output(BitVector[32])

    def architecture(self):
        self.interface_connection().connect_addr_map(Map(self))
'''

L_RANGE = {
    "name": "range",
    "source": SRC_RANGE,
    "regs": [
        {"name": "win", "addr": 0x0, "words": 3, "cls": "AddrRange", "notify": [], "read_tag": 0xC0DE0000,
         "fields": [{"name": "la", "hi": 3, "lo": 0, "kind": "win_addr", "port": "o_win_addr", "default": 0},
                    {"name": "last", "hi": 31, "lo": 0, "kind": "win_data", "port": "o_win_data", "default": 0}]},
        {"name": "ctrl", "addr": 0xC, "cls": "MemWord", "notify": [],
         "fields": [{"name": "raw", "hi": 31, "lo": 0, "kind": "mem", "port": "o_ctrl", "default": 0}]},
    ],
    "hw": [],
    "unmapped": [],
}

# ----------------------------------------------------------------------------------------------------------
# L6  MemWord, two-word Memory at 0x4 (offset not a multiple of its size -> range-compare decode), MemWord at 0xC
#     Memory: default configuration (separate memory processes, MaskMode.IMMEDIATE), zero initialised; from the
#     bus it is two consecutive words whose strobed bytes are stored.  The array elements are exposed on ports.
# ----------------------------------------------------------------------------------------------------------
SRC_MEMORY = HEADER + '''
class Map(reg32.AddrMap):
    lo: reg32.MemWord[0x0]
    mem: reg32.Memory[0x4:0xC]
    hi: reg32.MemWord[0xC]

    def _config_(self, e):
        self._e = e
        self.mem._config_(initial=Null)

    def _impl_concurrent_(self):
        self._e.o_lo <<= self.lo.raw
        self._e.o_hi <<= self.hi.raw
        self._e.o_m0 <<= self.mem._mem[0]
        self._e.o_m1 <<= self.mem._mem[1]


class T(axi.addr_map_entity(addr_width=4)):
    o_lo = Port.output(BitVector[32])
    o_hi = Port.output(BitVector[32])
    o_m0 = Port.output(BitVector[32])
    o_m1 = Port.output(BitVector[32])

    def architecture(self):
        self.interface_connection().connect_addr_map(Map(self))
'''


def _word(name, addr, cls, port):
    return {"name": name, "addr": addr, "cls": cls, "notify": [],
            "fields": [{"name": "raw", "hi": 31, "lo": 0, "kind": "mem", "port": port, "default": 0}]}


L_MEMORY = {
    "name": "memory",
    "source": SRC_MEMORY,
    "regs": [_word("lo", 0x0, "MemWord", "o_lo"), _word("mem[0]", 0x4, "Memory", "o_m0"),
             _word("mem[1]", 0x8, "Memory", "o_m1"), _word("hi", 0xC, "MemWord", "o_hi")],
    "hw": [],
    "unmapped": [],
}

# ----------------------------------------------------------------------------------------------------------
# L7  Interconnect: master port (addr_width=5) -> Interconnect -> one register-map slave reserved at 0x10 (16 bytes)
#     with two MemWords; every other address is answered by the interconnect's background slave.
#     The register-map slave drops awready and wready independently (whichever half arrived), so the interconnect has
#     to route the two ready signals separately.
# ----------------------------------------------------------------------------------------------------------
SRC_ICON = HEADER + '''from cohdl.std.axi.axi4_light.interconnect import Interconnect


class Map(reg32.AddrMap):
    w0: reg32.MemWord[0x0]
    w1: reg32.MemWord[0x4]

    def _config_(self, e):
        self._e = e

    def _impl_concurrent_(self):
        self._e.o_w0 <<= self.w0.raw
        self._e.o_w1 <<= self.w1.raw


class T(axi.base_entity(addr_width=5)):
    o_w0 = Port.output(BitVector[32])
    o_w1 = Port.output(BitVector[32])

    def architecture(self):
        master = self.interface_connection()
        ic = Interconnect(master)
        slv = ic.reserve(0x10, 16)
        slv.connect_addr_map(Map(self))
'''

L_ICON = {
    "name": "icon",
    "source": SRC_ICON,
    "regs": [_word("w0", 0x10, "MemWord", "o_w0"), _word("w1", 0x14, "MemWord", "o_w1")],
    "hw": [],
    "unmapped": [0x0, 0x4, 0x8, 0xC, 0x18, 0x1C],
}

# ----------------------------------------------------------------------------------------------------------
# L8  repeated types: the same RegFile class (notifying Register + MemWord) placed twice; every instance has its own
#     notification outputs
# ----------------------------------------------------------------------------------------------------------
SRC_TWINS = HEADER + '''
class Rn(reg32.Register):
    data: reg32.MemField[31:0, Null]
    wn: reg32.PushOnNotify.Write
    rn: reg32.PushOnNotify.Read


class Ch(reg32.RegFile, word_count=2):
    r: Rn[0x0]
    m: reg32.MemWord[0x4]


class Map(reg32.AddrMap):
    a: Ch[0x0]
    b: Ch[0x8]

    def _config_(self, e):
        self._e = e

    def _impl_concurrent_(self):
        self._e.o_a_d <<= self.a.r.data.val()
        self._e.o_a_wn <<= bool(self.a.r.wn)
        self._e.o_a_rn <<= bool(self.a.r.rn)
        self._e.o_a_m <<= self.a.m.raw
        self._e.o_b_d <<= self.b.r.data.val()
        self._e.o_b_wn <<= bool(self.b.r.wn)
        self._e.o_b_rn <<= bool(self.b.r.rn)
        self._e.o_b_m <<= self.b.m.raw


class T(axi.addr_map_entity(addr_width=4)):
    o_a_d = Port.output(BitVector[32])
    o_a_wn = Port.output(Bit)
    o_a_rn = Port.output(Bit)
    o_a_m = Port.output(BitVector[32])
    o_b_d = Port.output(BitVector[32])
    o_b_wn = Port.output(Bit)
    o_b_rn = Port.output(Bit)
    o_b_m = Port.output(BitVector[32])

    def architecture(self):
        self.interface_connection().connect_addr_map(Map(self))
'''


def _nreg(name, addr, p):
    return {"name": name, "addr": addr, "cls": "Register", "notify": [("write", f"o_{p}_wn"), ("read", f"o_{p}_rn")],
            "fields": [{"name": "data", "hi": 31, "lo": 0, "kind": "mem", "port": f"o_{p}_d", "default": 0}]}


L_TWINS = {
    "name": "twins",
    "source": SRC_TWINS,
    "regs": [_nreg("a.r", 0x0, "a"), _word("a.m", 0x4, "MemWord", "o_a_m"),
             _nreg("b.r", 0x8, "b"), _word("b.m", 0xC, "MemWord", "o_b_m")],
    "hw": [],
    "unmapped": [],
}

LAYOUTS = {l["name"]: l for l in (L_MEMWORD, L_FIELDS, L_ARRAY, L_NESTED, L_RANGE, L_MEMORY, L_ICON, L_TWINS)}

"""Stand-alone reproduction (C20): reg32.Array inside a RegFile that is not at address 0 is mis-addressed.

    class Inner(reg32.RegFile, word_count=2):
        arr: reg32.Array[reg32.MemWord, 0x0:0x8:4]
    class Map(reg32.AddrMap):
        top:   reg32.MemWord[0x0]
        inner: Inner[0x10]

Documented addresses (offsets are relative to the parent, like every other member): arr[0] @ 0x10, arr[1] @ 0x14.
Observed: the Array object itself gets _global_offset_ 0x10, its elements get 0x0 and 0x4 (the parent's offset is
lost), so arr[0] collides with `top`; _flatten_ then fails or, if nothing else is mapped there, the elements answer
at 0x0/0x4 instead of 0x10/0x14.

run: /venv/bin/python -W ignore /verif/verif/gen/c20_repro_nested_array.py      (exit 1 = defect present)
"""
from __future__ import annotations

import sys

from cohdl.std.reg import reg32


class Inner(reg32.RegFile, word_count=2):
    arr: reg32.Array[reg32.MemWord, 0x0:0x8:4]


class Map(reg32.AddrMap):
    inner: Inner[0x10]


m = Map()
got = [e._global_offset_ for e in m.inner.arr._elements]
print("RegFile inner          @", hex(m.inner._global_offset_))
print("Array inner.arr        @", hex(m.inner.arr._global_offset_))
print("elements inner.arr[i]  @", [hex(x) for x in got], " expected ['0x10', '0x14']")
print("flattened address map  :", [(o._name_, hex(o._global_offset_)) for o in m._flatten_()])
sys.exit(0 if got == [0x10, 0x14] else 1)

"""C14/C15: exhaustive exploration with the reachable state set kept, plus liveness checks on it.

`explore` runs verif.mc.explorer.bfs through a thin recording proxy, so that afterwards
  * every reachable product state (snapshot) is available, and
  * a shortest choice sequence from the initial state to any of them can be produced (parent pointers).

Liveness under a *deterministic environment strategy* (e.g. "never push, always request pop") makes the
product system a functional graph on the reachable set: every state has exactly one successor.  So
"from this state the goal is eventually reached" is decidable exactly by following successors until the
goal, a state with known verdict, or a repetition (a cycle that avoids the goal = the element is never
delivered).  Each state is stepped at most once (memoised), the verdict is exact, nothing is sampled.
"""
from __future__ import annotations

from ..mc.explorer import bfs


class Recorder:
    """proxy around a system object; remembers (source snapshot, choice) of the transition being executed"""

    def __init__(self, system):
        self.system = system
        self.cur = None
        self.ch = None
        if hasattr(system, "observe"):
            self.observe = system.observe

    def snapshot(self):
        return self.system.snapshot()

    def restore(self, s):
        self.cur = s
        self.system.restore(s)

    def choices(self):
        return self.system.choices()

    def apply(self, ch):
        self.ch = ch
        return self.system.apply(ch)


class Space:
    """result of explore(): reachable states + parent pointers"""

    def __init__(self, result, init, parent):
        self.result = result
        self.init = init
        self.parent = parent  # snap -> (parent snap, choice) ; init -> None

    @property
    def states(self):
        return self.parent.keys()

    def trace_to(self, snap):
        out = []
        while self.parent[snap] is not None:
            snap, ch = self.parent[snap]
            out.append(ch)
        out.reverse()
        return out


def explore(system, max_states=2_000_000):
    rec = Recorder(system)
    init = system.snapshot()
    parent = {init: None}

    def on_state(_sys, nxt, _depth):
        parent[nxt] = (rec.cur, rec.ch)

    r = bfs(rec, max_states=max_states, on_state=on_state)
    return Space(r, init, parent)


def eventually(system, states, strategy, goal):
    """For every state in `states`: following `strategy(system) -> choice` reaches a state where
    `goal(system)` holds.  Returns None if that is so for all states, else
    (bad_state, message) where message is a safety violation text met on the way or None for
    'a cycle that never meets the goal'.  Number of transitions executed is returned second."""
    verdict = {}
    steps = 0
    for s0 in states:
        if s0 in verdict:
            continue
        path = []
        on_path = set()
        s = s0
        while True:
            if s in verdict:
                v = verdict[s]
                break
            system.restore(s)
            if goal(system):
                verdict[s] = True
                v = True
                break
            if s in on_path:
                v = False
                break
            on_path.add(s)
            path.append(s)
            msg = system.apply(strategy(system))
            steps += 1
            if msg is not None:
                return (s, msg), steps
            s = system.snapshot()
        for p in path:
            verdict[p] = v
        if not v:
            return (s0, None), steps
    return None, steps


def recurrent_states(system, states, strategy):
    """States that lie on a cycle of the functional graph induced by `strategy` (the states the system
    stays in forever when the environment follows the strategy).  Returns (list, steps, violation)."""
    nxt = {}
    steps = 0
    color = {}  # 1 = on current path, 2 = done
    rec = []
    for s0 in states:
        if s0 in color:
            continue
        path = []
        s = s0
        while s not in color:
            color[s] = 1
            path.append(s)
            system.restore(s)
            msg = system.apply(strategy(system))
            steps += 1
            if msg is not None:
                return rec, steps, (s, msg)
            n = system.snapshot()
            nxt[s] = n
            s = n
        if color[s] == 1:
            # closed a new cycle: the part of path from s on
            i = path.index(s)
            rec.extend(path[i:])
        for p in path:
            color[p] = 2
    return rec, steps, None

"""C10 family `ops`: operator dispatch on user classes, enumerated completely.

binary  x op y for all 13 binary operators.  Operand relation: same (A,A) | sub (A, B(A)) | sup (B(A), A) |
        unrel (A, B) | intl (1, A) | intr (A, 2).  Each class has a spec "f<x>r<y>": forward method and reflected
        method each in {- absent/inherited, V returns a tagged tuple, N returns NotImplemented}.
compare x op y for the 6 rich comparisons, same relations; forward/reflected are the two mirrored methods
        (__lt__/__gt__, __le__/__ge__, __eq__/__eq__, __ne__/__ne__).  Methods return bool (cohdl insists on bool):
        `(self.v == 1) == POL` where the left operand has v == 1 and POL is True for the two methods the operator may
        legitimately use and False for the four others (all six are always defined when the spec says V), so both a
        wrong receiver and a wrong method name flip the value.
unary   -x +x ~x abs(x) on A / B(A), method defined in A, overridden in B or not.
truth   not x, bool(x), x if-test, if-expression test, `x and 1`, `0 or x` with __bool__ in {-, T, F} x __len__ in {-, 0, 2}.
hier    hierarchies beyond two levels: chain A <- B <- C with a mixin M (class C(M, B)); for the forward and for the
        reflected (mirrored) method independently, WHERE it is defined:  - nowhere | A | AB (A, overridden in B) |
        AC (A, overridden in C) | B | C | M (mixin only) | AM (A and mixin), each optionally with the most derived
        definition returning NotImplemented; operand classes (L, R) in A.B A.C B.C B.B C.C C.A C.B, plus an unrelated
        class U (own method absent / value / NotImplemented) or an int on either side.  Binary methods return
        ('<defining class>.<method>', self.v); comparison methods return (self.v == 1) == <polarity of the defining
        class>.  quick: operators + - < ==; thorough: all 13 binary and 6 comparison operators.
chain   chained comparisons: every pair of operators from < <= > >= == != is / is not / in over every triple of ints
        from {0, 1, 2} (operands passed as arguments); the same with objects whose six ordering methods compare a
        stored value, and with the middle operand an object; chains of three operators over every quadruple
        (quick: operators < >= ==; thorough: all six ordering operators).
aug     x <<= 2, x ^= 2, x @= 2, x += 2 with __iop__ in {-, returns self, returns a new object} x __op__ in {-, V}.

CPython raising TypeError (unsupported operand) is "no claim".
"""
from __future__ import annotations

import itertools

from .c10_common import case

BINOPS = {
    "+": "add", "-": "sub", "*": "mul", "/": "truediv", "//": "floordiv", "%": "mod", "**": "pow",
    "&": "and", "|": "or", "^": "xor", "<<": "lshift", ">>": "rshift", "@": "matmul",
}
CMPOPS = {"<": ("lt", "gt"), ">": ("gt", "lt"), "<=": ("le", "ge"), ">=": ("ge", "le"), "==": ("eq", "eq"), "!=": ("ne", "ne")}
ALLCMP = ("lt", "gt", "le", "ge", "eq", "ne")
SPEC = ("-", "V", "N")
RELS = ("same", "sub", "sup", "unrel", "intl", "intr")


def _cls(name, base, body):
    head = f"class {name}__S__({base}__S__):\n" if base else f"class {name}__S__:\n"
    init = "" if base else "    def __init__(self, v):\n        self.v = v\n"
    if not init and not body:
        body = "    pass\n"
    return head + init + body


def _bin_body(cname, op, f, r):
    out = ""
    for kind, spec in (("", f), ("r", r)):
        m = f"__{kind}{op}__"
        if spec == "V":
            out += f"    def {m}(self, o):\n        return ('{cname}.{m}', self.v)\n"
        elif spec == "N":
            out += f"    def {m}(self, o):\n        return NotImplemented\n"
    return out


def _cmp_body(cname, fwd, ref, f, r):
    """spec f governs method `fwd`, spec r governs method `ref` (for == and != only f is used)."""
    out = ""
    specs = {fwd: f}
    if ref != fwd:
        specs[ref] = r
    for m, spec in specs.items():
        if spec == "V":
            out += f"    def __{m}__(self, o):\n        return (self.v == 1) == True\n"
        elif spec == "N":
            out += f"    def __{m}__(self, o):\n        return NotImplemented\n"
    if "V" in specs.values():
        for m in ALLCMP:
            if m not in specs:
                out += f"    def __{m}__(self, o):\n        return (self.v == 1) == False\n"
    return out


def _operands(rel):
    return {
        "same": ("A__S__(1)", "A__S__(2)"),
        "sub": ("A__S__(1)", "B__S__(2)"),
        "sup": ("B__S__(1)", "A__S__(2)"),
        "unrel": ("A__S__(1)", "B__S__(2)"),
        "intl": ("1", "A__S__(2)"),
        "intr": ("A__S__(1)", "2"),
    }[rel]


def _two_class_cases(kind, ops, body_fn):
    for sym, opinfo in ops.items():
        for rel in RELS:
            one = rel in ("same", "intl", "intr")
            sym_refl = kind == "cmp" and opinfo[0] == opinfo[1]  # == and !=: one method per class
            for af, ar in itertools.product(SPEC, SPEC):
                if sym_refl and ar != "-":
                    continue
                bspecs = [("-", "-")] if one else list(itertools.product(SPEC, SPEC))
                for bf, br in bspecs:
                    if sym_refl and br != "-":
                        continue
                    defs = _cls("A", None, body_fn("A", opinfo, af, ar))
                    if not one:
                        defs += _cls("B", "A" if rel in ("sub", "sup") else None, body_fn("B", opinfo, bf, br))
                    x, y = _operands(rel)
                    # L = class of the left operand, R = class of the right operand
                    if rel == "sup":
                        lspec, rspec = f"f{bf}r{br}", f"f{af}r{ar}"
                    elif one:
                        lspec = rspec = f"f{af}r{ar}"
                    else:
                        lspec, rspec = f"f{af}r{ar}", f"f{bf}r{br}"
                    key = f"ops/{kind}/{rel}/L.{lspec}/R.{rspec}/{opinfo if kind == 'bin' else opinfo[0]}"
                    yield case(key, defs + f"def case__S__():\n    return {x} {sym} {y}\n", "case__S__()")


def binary_cases():
    yield from _two_class_cases("bin", BINOPS, lambda c, op, f, r: _bin_body(c, op, f, r))


def compare_cases():
    yield from _two_class_cases("cmp", CMPOPS, lambda c, op, f, r: _cmp_body(c, op[0], op[1], f, r))


UNARY = {"-": ("-{}", "neg"), "+": ("+{}", "pos"), "~": ("~{}", "invert"), "abs": ("abs({})", "abs")}


def unary_cases():
    for sym, (tmpl, m) in UNARY.items():
        for a in ("-", "V"):
            for b in ("-", "V"):
                for inst in ("A", "B"):
                    abody = f"    def __{m}__(self):\n        return ('A.{m}', self.v)\n" if a == "V" else ""
                    bbody = f"    def __{m}__(self):\n        return ('B.{m}', self.v)\n" if b == "V" else ""
                    defs = _cls("A", None, abody) + _cls("B", "A", bbody)
                    expr = tmpl.format(f"{inst}__S__(1)")
                    yield case(f"ops/unary/{m}/A.{a}/B.{b}/on{inst}", defs + f"def case__S__():\n    return {expr}\n", "case__S__()")


TRUTH_CTX = {
    "not": "    return not x\n",
    "bool": "    return bool(x)\n",
    "if": "    if x:\n        return 'T'\n    else:\n        return 'F'\n",
    "ifexp": "    return 'T' if x else 'F'\n",
    "and": "    return x and 1\n",
    "or": "    return 0 or x\n",
    "notnot": "    return not not x\n",
}


def truth_cases():
    for b in ("-", "T", "F"):
        for ln in ("-", "0", "2"):
            body = ""
            if b != "-":
                body += f"    def __bool__(self):\n        return {'True' if b == 'T' else 'False'}\n"
            if ln != "-":
                body += f"    def __len__(self):\n        return {ln}\n"
            for ctx, text in TRUTH_CTX.items():
                defs = _cls("A", None, body) + f"def case__S__():\n    x = A__S__(1)\n{text}"
                yield case(f"ops/truth/{ctx}/bool{b}/len{ln}", defs, "case__S__()")
    # builtin containers / scalars in boolean contexts
    for vname, v in (("list0", "[]"), ("list1", "[0]"), ("tuple0", "()"), ("tuple1", "(0,)"), ("dict0", "{}"), ("dict1", "{'a': 0}"),
                     ("str0", "''"), ("str1", "'a'"), ("int0", "0"), ("int2", "2"), ("none", "None"), ("float0", "0.0"), ("true", "True")):
        for ctx, text in TRUTH_CTX.items():
            defs = f"def case__S__(x):\n{text}"
            yield case(f"ops/truth/{ctx}/builtin/{vname}", defs, f"case__S__({v})")


AUG = {"<<=": "lshift", "^=": "xor", "@=": "matmul", "+=": "add", "|=": "or"}


def aug_cases():
    for sym, m in AUG.items():
        for i in ("-", "S", "O"):
            for f in ("-", "V"):
                body = ""
                if i == "S":
                    body += f"    def __i{m}__(self, o):\n        return self\n"
                elif i == "O":
                    body += f"    def __i{m}__(self, o):\n        return A__S__(self.v + 10)\n"
                if f == "V":
                    body += f"    def __{m}__(self, o):\n        return A__S__(self.v + 20)\n"
                defs = _cls("A", None, body) + f"def case__S__():\n    x = A__S__(1)\n    x {sym} 2\n    return x.v\n"
                yield case(f"ops/aug/i{m}/i{i}/f{f}", defs, "case__S__()")


PLACE = {"-": "", "A": "A", "AB": "AB", "AC": "AC", "B": "B", "C": "C", "M": "M", "AM": "AM"}
MRO_C = "CMBA"  # class C(M, B): C, M, B, A
POL = {"A": "True", "B": "False", "C": "True", "M": "False", "U": "True"}


def _placements():
    for p in PLACE:
        yield p, False
        if p != "-":
            yield p, True  # most derived definition returns NotImplemented


def _hier_defs(kind, fname, rname, fpl, rpl, uspec):
    """class source for A, B(A), M, C(M, B), U.  fpl / rpl = (placement, top_returns_NotImplemented)"""
    methods = {c: [] for c in "ABCMU"}

    def body(cls, name, ni):
        if ni:
            return f"    def __{name}__(self, o):\n        return NotImplemented\n"
        if kind == "bin":
            return f"    def __{name}__(self, o):\n        return ('{cls}.__{name}__', self.v)\n"
        return f"    def __{name}__(self, o):\n        return (self.v == 1) == {POL[cls]}\n"

    todo = [(fname, fpl)] if fname == rname else [(fname, fpl), (rname, rpl)]
    for name, (pl, ni) in todo:
        where = PLACE[pl]
        top = next((c for c in MRO_C if c in where), None)
        for c in where:
            methods[c].append(body(c, name, ni and c == top))
    for name, spec in uspec:
        if spec != "-":
            methods["U"].append(body("U", name, spec == "N"))
    out = "class A__S__:\n    def __init__(self, v):\n        self.v = v\n" + "".join(methods["A"])
    out += "class B__S__(A__S__):\n" + ("".join(methods["B"]) or "    pass\n")
    out += "class M__S__:\n" + ("".join(methods["M"]) or "    pass\n")
    out += "class C__S__(M__S__, B__S__):\n" + ("".join(methods["C"]) or "    pass\n")
    out += "class U__S__:\n    def __init__(self, v):\n        self.v = v\n" + "".join(methods["U"])
    return out


HIER_PAIRS = ("A.B", "A.C", "B.C", "B.B", "C.C", "C.A", "C.B")


def hier_cases(binops, cmpops):
    allops = [("bin", sym, m, "r" + m) for sym, m in BINOPS.items() if sym in binops]
    allops += [("cmp", sym, f, r) for sym, (f, r) in CMPOPS.items() if sym in cmpops]
    pls = list(_placements())
    for kind, sym, fname, rname in allops:
        single = fname == rname  # == and !=
        def tag(pl):
            return pl[0] + ("n" if pl[1] else "")
        # both operands from the hierarchy
        for pair in HIER_PAIRS:
            lc, rc = pair.split(".")
            for fpl in pls:
                for rpl in ([("-", False)] if single else pls):
                    defs = _hier_defs(kind, fname, rname, fpl, rpl, ())
                    key = f"ops/hier/{kind}/{fname}/{pair}/f{tag(fpl)}/r{tag(rpl)}"
                    yield case(key, defs + f"def case__S__():\n    return {lc}__S__(1) {sym} {rc}__S__(2)\n", "case__S__()")
        # unrelated class / int on one side: only the method of the hierarchy operand matters
        for hc in "ABC":
            for pl in pls:
                for us in SPEC:
                    # hierarchy operand on the right: its reflected method, U's forward method
                    rp = pl
                    defs = _hier_defs(kind, fname, rname, ("-", False) if not single else pl, rp, ((fname, us),))
                    yield case(f"ops/hier/{kind}/{fname}/U.{hc}/u{us}/r{tag(pl)}",
                               defs + f"def case__S__():\n    return U__S__(1) {sym} {hc}__S__(2)\n", "case__S__()")
                    defs = _hier_defs(kind, fname, rname, pl, ("-", False), ((rname, us),))
                    yield case(f"ops/hier/{kind}/{fname}/{hc}.U/f{tag(pl)}/u{us}",
                               defs + f"def case__S__():\n    return {hc}__S__(1) {sym} U__S__(2)\n", "case__S__()")
                defs = _hier_defs(kind, fname, rname, ("-", False) if not single else pl, pl, ())
                yield case(f"ops/hier/{kind}/{fname}/int.{hc}/r{tag(pl)}",
                           defs + f"def case__S__():\n    return 1 {sym} {hc}__S__(2)\n", "case__S__()")
                defs = _hier_defs(kind, fname, rname, pl, ("-", False), ())
                yield case(f"ops/hier/{kind}/{fname}/{hc}.int/f{tag(pl)}",
                           defs + f"def case__S__():\n    return {hc}__S__(1) {sym} 2\n", "case__S__()")


CHAIN_OPS = ("<", "<=", ">", ">=", "==", "!=", "is", "is not", "in")
ORDER_OPS = ("<", "<=", ">", ">=", "==", "!=")
_OPN = {"<": "lt", "<=": "le", ">": "gt", ">=": "ge", "==": "eq", "!=": "ne", "is": "is", "is not": "isnot", "in": "in"}
_VCLS = "class V__S__:\n    def __init__(self, v):\n        self.v = v\n" + "".join(
    f"    def __{_OPN[o]}__(self, o):\n        return self.v {o} (o.v if isinstance(o, V__S__) else o)\n" for o in ORDER_OPS
)


def chain_cases(thorough):
    vals = (0, 1, 2)
    for o1 in CHAIN_OPS:
        for o2 in CHAIN_OPS:
            body = f"def case__S__(a, b, c):\n    return a {o1} b {o2} c\n"
            for t in itertools.product(vals, repeat=3):
                yield case(f"ops/chain/int/{_OPN[o1]}.{_OPN[o2]}/{t[0]}{t[1]}{t[2]}", body, f"case__S__({t[0]}, {t[1]}, {t[2]})")
    for o1 in ORDER_OPS:
        for o2 in ORDER_OPS:
            for t in itertools.product(vals, repeat=3):
                k = f"{_OPN[o1]}.{_OPN[o2]}/{t[0]}{t[1]}{t[2]}"
                yield case(f"ops/chain/obj/{k}", _VCLS + f"def case__S__(a, b, c):\n    return V__S__(a) {o1} V__S__(b) {o2} V__S__(c)\n",
                           f"case__S__({t[0]}, {t[1]}, {t[2]})")
                yield case(f"ops/chain/mid/{k}", _VCLS + f"def case__S__(a, b, c):\n    return a {o1} V__S__(b) {o2} c\n",
                           f"case__S__({t[0]}, {t[1]}, {t[2]})")
    ops3 = ORDER_OPS if thorough else ("<", ">=", "==")
    for o1, o2, o3 in itertools.product(ops3, repeat=3):
        body = f"def case__S__(a, b, c, d):\n    return a {o1} b {o2} c {o3} d\n"
        for t in itertools.product(vals, repeat=4):
            yield case(f"ops/chain/int4/{_OPN[o1]}.{_OPN[o2]}.{_OPN[o3]}/{''.join(map(str, t))}", body, f"case__S__({', '.join(map(str, t))})")


def cases(thorough):
    yield from binary_cases()
    yield from compare_cases()
    yield from unary_cases()
    yield from truth_cases()
    yield from aug_cases()
    yield from chain_cases(thorough)
    if thorough:
        yield from hier_cases(set(BINOPS), set(CMPOPS))
    else:
        yield from hier_cases({"+", "-"}, {"<", "=="})


STRIPES = 24


def tasks(thorough, seed):
    return [("ops", thorough, i) for i in range(STRIPES)]


def expand(desc):
    _, thorough, i = desc
    return itertools.islice(cases(thorough), i, None, STRIPES)

"""C16: bounded configuration families for the std timing utilities + their CoHDL wrapper source.

A configuration is a JSON-able dict {"family": ..., "key": canonical text, ...parameters}.
`build(cfg)` -> (source text, reference model, expectation) with expectation in
    "accept" : the docs say this input is legal -> a rejection is reported (only used for Duration arguments
               the clock period divides, where the property demands the conversion)
    "reject" : must be rejected (Duration the clock period does not divide)
    "either" : a rejection is counted, never reported
"""
from __future__ import annotations

from ..ref import c16_models as M

HEADER = """from cohdl import std, Entity, Port, Bit, BitVector, Unsigned, Signal, Null, Full
import cohdl
"""

# clock descriptions used for Duration arguments: (kind, unit, text)
CLOCKS = {
    "1ns": ("frequency", "GHz", "1"),
    "4ns": ("frequency", "MHz", "250"),
    "3ns": ("period", "ns", "3"),
    "2.5ns": ("frequency", "MHz", "400"),
}

# systematic (unit, mantissa, clock frequency) grid for Duration arguments: every combination whose exact rational
# number of clock periods is an integer n within the tier's bound becomes a configuration of every Duration-based
# utility; the complete grid (any n, and the non-dividing combinations) is swept at Python level by
# duration_grid() / verif/checks/C16.py:duration_sweep.
LADDER = {"1MHz": ("frequency", "MHz", "1"), "2MHz": ("frequency", "MHz", "2"), "4MHz": ("frequency", "MHz", "4"),
          "5MHz": ("frequency", "MHz", "5"), "8MHz": ("frequency", "MHz", "8"), "10MHz": ("frequency", "MHz", "10"),
          "20MHz": ("frequency", "MHz", "20"), "25MHz": ("frequency", "MHz", "25"), "50MHz": ("frequency", "MHz", "50"),
          "100MHz": ("frequency", "MHz", "100"), "1GHz": ("frequency", "GHz", "1")}
CLOCKS.update(LADDER)
GRID_UNITS = ("ns", "us", "ms")
GRID_MANTISSAS = ("0.5", "1", "1.5", "2", "2.5", "3", "4", "5", "6", "7.5", "8", "10", "12.5", "20", "25", "40", "50",
                  "100", "125", "200", "250", "500")


def duration_grid():
    """all (unit, mantissa, clock name, exact ticks or None) of the grid"""
    out = []
    for u in GRID_UNITS:
        for m in GRID_MANTISSAS:
            for clk in LADDER:
                out.append((u, m, clk, M.duration_ticks_exact((u, m), CLOCKS[clk])))
    return out


def grid_durations(thorough):
    """grid points with an integer number n of periods, 1 <= n <= bound: [((unit, mantissa), clk, n)]"""
    bound = 25 if thorough else 8
    return [((u, m), clk, r) for u, m, clk, r in duration_grid() if r.denominator == 1 and 1 <= r <= bound]


def clock_src(clk):
    if clk is None:
        return "std.Clock(self.clk)"
    c = CLOCKS[clk]
    return f"std.Clock(self.clk, {c[0]}=std.{c[1]}({c[2]}))"


# reset flavours of the sequential context: (active level, sync/async)
CTX_FLAVOURS = ("hs", "ha", "ls", "la")


def reset_src(ctx):
    if not ctx:
        return ""
    return f", std.Reset(self.rst, active_low={ctx[0] == 'l'}, is_async={ctx[1] == 'a'})"


def _ctx_key(ctx, step=False):
    return (f"/ctx={ctx}" if ctx else "") + ("/step" if step else "")


def step_src(cfg):
    """step condition of the context driven by an input"""
    return ", step_cond=lambda: self.step" if cfg.get("step") else ""


STEP_CTX_QUICK = (None, "hs", "ha")


def _step_ctxs(thorough):
    return (None,) + CTX_FLAVOURS if thorough else STEP_CTX_QUICK


def dur_src(dur):
    return f"std.{dur[0]}({dur[1]})"


# durations tried per clock: dividing ones (small tick counts) and non-dividing ones
DURATIONS = {
    "1ns": [("ns", "1"), ("ps", "2000"), ("us", "0.003"), ("ns", "5"), ("ps", "2500"), ("ns", "1.5")],
    "4ns": [("ns", "4"), ("ns", "8"), ("us", "0.012"), ("ps", "20000"), ("ns", "10"), ("ns", "6")],
    "3ns": [("ns", "3"), ("ps", "6000"), ("ns", "9"), ("us", "0.012"), ("ns", "10"), ("ns", "4")],
    "2.5ns": [("ns", "2.5"), ("ns", "5"), ("ps", "7500"), ("us", "0.01"), ("ns", "4"), ("ns", "6")],
}


def _expect_for_ticks(ticks, minimum=1):
    if ticks is None:
        return "reject"
    return "accept" if ticks >= minimum else "either"


# =============================================================================================
# wait_for / Waiter
# =============================================================================================
def _wait_arg(spec):
    """spec: ("const", n, allow_zero) | ("rt", None, allow_zero) | ("dur", (unit, text), clk)"""
    if spec[0] == "const":
        return f"{spec[1]}" + (", allow_zero=True" if spec[2] else "")
    if spec[0] == "rt":
        return "self_.n" + (", allow_zero=True" if spec[2] else "")
    return dur_src(spec[1])


def _wait_prog(shape, specs):
    """structured reference program + source lines of the coroutine body (env name `self_`)"""
    W = lambda i: ("wait", specs[i])  # noqa
    if shape == "seq":
        return [("await",), ("mark", 0), W(0), ("mark", 1)]
    if shape == "two":
        return [("await",), ("mark", 0), W(0), ("mark", 1), W(1), ("mark", 2)]
    if shape == "if":
        return [("await",), ("if", [("mark", 0), W(0), ("mark", 1)], [("mark", 2), W(1), ("mark", 3)]), ("mark", 4)]
    if shape == "sub":
        return [("await",), ("mark", 0), ("call", [("mark", 1), W(0), ("mark", 2)]), ("mark", 3)]
    if shape == "again":
        # second await in the middle of the coroutine, wait reached in the clock in which that await resumes
        return [("await",), ("mark", 0), W(0), ("mark", 1), ("await",), ("mark", 2), W(1), ("mark", 3)]
    raise ValueError(shape)


def _count_marks(prog):
    n = 0
    for st in prog:
        if st[0] == "mark":
            n = max(n, st[1] + 1)
        elif st[0] == "if":
            n = max(n, _count_marks(st[1]), _count_marks(st[2]))
        elif st[0] == "call":
            n = max(n, _count_marks(st[1]))
    return n


def _render_wait_block(block, api, ind, env, subs):
    pre = "    " * ind
    lines = []
    for st in block:
        k = st[0]
        if k == "await":
            lines.append(pre + f"await {env}.start")
        elif k == "mark":
            lines.append(pre + f"{env}.m{st[1]} ^= True")
        elif k == "wait":
            fn = "std.wait_for" if api == "std" else "w.wait_for"
            lines.append(pre + f"await {fn}({_wait_arg(st[1]).replace('self_', env)})")
        elif k == "if":
            lines.append(pre + f"if {env}.sel:")
            lines += _render_wait_block(st[1], api, ind + 1, env, subs)
            lines.append(pre + "else:")
            lines += _render_wait_block(st[2], api, ind + 1, env, subs)
        elif k == "call":
            name = f"sub{len(subs)}"
            subs.append([f"async def {name}(e, w):"] + _render_wait_block(st[1], api, 1, "e", subs) + [""])
            lines.append(pre + f"await {name}({env}, w)")
    return lines


def _model_spec(spec):
    if spec[0] == "const":
        return ("const", spec[1])
    if spec[0] == "rt":
        return ("rt",)
    t = M.duration_ticks(spec[1], CLOCKS[spec[2]])
    return ("const", t)


def build_wait(cfg):
    api, shape = cfg["api"], cfg["shape"]
    specs = [tuple(s) if not isinstance(s[1], list) else (s[0], tuple(s[1]), s[2]) for s in cfg["specs"]]
    clk = cfg.get("clk")
    prog = _wait_prog(shape, specs)
    nmarks = _count_marks(prog)
    has_rt = any(s[0] == "rt" for s in specs)
    has_sel = shape == "if"
    allow0 = any(s[0] == "rt" and s[2] for s in specs)
    # run-time values: 3-bit input, every value >= 1 (0 only where every run-time call allows zero)
    strict = any(s[0] == "rt" and not s[2] for s in specs)
    n_values = None
    if has_rt:
        n_values = tuple(range(0 if (allow0 and not strict) else 1, 1 << cfg.get("nbits", 3)))
    subs = []
    body = _render_wait_block(prog, api, 3, "self", subs)
    src = [HEADER]
    for s in subs:
        src += s
    src.append("class T(Entity):")
    src.append("    clk = Port.input(Bit)")
    src.append("    start = Port.input(Bit)")
    if has_rt:
        src.append(f"    n = Port.input(Unsigned[{cfg.get('nbits', 3)}])")
    if has_sel:
        src.append("    sel = Port.input(Bit)")
    ctx = cfg.get("ctx")
    if ctx:
        src.append("    rst = Port.input(Bit)")
    if cfg.get("step"):
        src.append("    step = Port.input(Bit)")
    for i in range(nmarks):
        src.append(f"    m{i} = Port.output(Bit, default=False)")
    src.append("    def architecture(self):")
    if api == "waiter":
        wm = cfg["wmax"]
        src.append(f"        w = std.Waiter({dur_src(tuple(wm)) if isinstance(wm, (list, tuple)) else wm})")
    else:
        src.append("        w = None")
    src.append(f"        @std.sequential({clock_src(clk)}{reset_src(ctx)}{step_src(cfg)})")
    src.append("        async def proc():")
    src += body
    src.append("")
    # expectation
    expect = "either"
    mspecs = []
    for s in specs:
        if s[0] == "dur":
            t = M.duration_ticks(s[1], CLOCKS[s[2]])
            e = _expect_for_ticks(t)
            if e == "reject":
                expect = "reject"
            elif e == "accept" and expect != "reject":
                expect = "accept"
        mspecs.append(_model_spec(s))
    if api == "waiter" and isinstance(cfg["wmax"], (list, tuple)):
        if M.duration_ticks(tuple(cfg["wmax"]), CLOCKS[clk]) is None:
            expect = "reject"
    if expect == "reject":
        model = None
    else:
        mprog = _wait_prog(shape, mspecs)
        model = M.WaitModel(mprog, nmarks, n_values=n_values, has_sel=has_sel, has_rst=bool(ctx),
                            rst_active_low=bool(ctx) and ctx[0] == "l")
        if cfg.get("step"):
            model = M.StepGated(model, pulse_outputs=model.outputs)
    return "\n".join(src), model, expect


def wait_configs(thorough):
    out = []

    def add(api, shape, specs, clk=None, wmax=None, **kw):
        cfg = {"family": "wait", "api": api, "shape": shape, "specs": [list(s) for s in specs]}
        if clk:
            cfg["clk"] = clk
        if api == "waiter":
            cfg["wmax"] = wmax
        cfg.update(kw)
        cfg["key"] = "wait/" + api + (f"[max={_fmt(wmax)}]" if api == "waiter" else "") + "/" + shape + "/" + \
            ",".join(_fmt_spec(s) for s in specs) + (f"/clk={clk}" if clk else "") + \
            (f"/nbits={kw['nbits']}" if "nbits" in kw else "") + _ctx_key(kw.get("ctx"), kw.get("step"))
        out.append(cfg)

    nmax = 12 if thorough else 6
    C = lambda n, z=False: ("const", n, z)  # noqa
    R = lambda z=False: ("rt", None, z)  # noqa
    for api in ("std", "waiter"):
        wmaxes = lambda n: ([max(n, 1), 7, 12] if thorough else [max(n, 1), 7])  # noqa
        # single wait, constant
        for n in range(1, nmax + 1):
            for wm in (sorted(set(m for m in wmaxes(n) if m >= n)) if api == "waiter" else [None]):
                add(api, "seq", [C(n)], wmax=wm)
        for n in range(0, 4):
            add(api, "seq", [C(n, True)], wmax=7)
        # run-time
        for z in (False, True):
            add(api, "seq", [R(z)], wmax=7)
            add(api, "sub", [R(z)], wmax=7)
            add(api, "two", [R(z), R(z)], wmax=7)
            add(api, "again", [R(z), R(z)], wmax=7)
            add(api, "if", [R(z), C(2)], wmax=7)
        add(api, "two", [R(True), R(False)], wmax=7)
        add(api, "two", [R(False), R(True)], wmax=7)
        if thorough:
            add(api, "seq", [R(False)], wmax=15, nbits=4)
            add(api, "seq", [R(True)], wmax=15, nbits=4)
            add(api, "two", [R(True), R(True)], wmax=15, nbits=4)
        # two constant waits / mixed
        r2 = range(1, 5) if thorough else range(1, 4)
        for a in r2:
            for b in r2:
                add(api, "two", [C(a), C(b)], wmax=7)
                if thorough:
                    add(api, "again", [C(a), C(b)], wmax=7)
            add(api, "two", [C(a), R()], wmax=7)
            add(api, "two", [R(), C(a)], wmax=7)
            add(api, "two", [C(a), R(True)], wmax=7)
            add(api, "sub", [C(a)], wmax=7)
            add(api, "again", [C(a), C(1)], wmax=7)
            add(api, "again", [C(1), C(a)], wmax=7)
        for a, b in ((1, 2), (2, 1), (2, 3), (3, 3), (1, 1)):
            add(api, "if", [C(a), C(b)], wmax=7)
        # context with a reset (asserted by the environment at arbitrary clocks)
        for ctx in CTX_FLAVOURS:
            for n in ((1, 2, 3, 5) if thorough else (1, 2, 3)):
                add(api, "seq", [C(n)], wmax=7, ctx=ctx)
            add(api, "seq", [R()], wmax=7, ctx=ctx)
            add(api, "two", [C(2), R(True)], wmax=7, ctx=ctx)
        # context with a step condition driven by an input x reset flavour
        for ctx in _step_ctxs(thorough):
            for n in ((1, 2, 3, 5) if thorough else (1, 2, 3)):
                add(api, "seq", [C(n)], wmax=7, ctx=ctx, step=True)
            add(api, "seq", [R()], wmax=7, ctx=ctx, step=True)
            add(api, "two", [C(2), R(True)], wmax=7, ctx=ctx, step=True)
            add(api, "seq", [("dur", ("ns", "12"), "4ns")], clk="4ns", wmax=7, ctx=ctx, step=True)
        # Duration arguments
        for clk, durs in DURATIONS.items():
            for d in durs:
                add(api, "seq", [("dur", d, clk)], clk=clk, wmax=12)
            add(api, "two", [("dur", durs[1], clk), ("dur", durs[0], clk)], clk=clk, wmax=12)
        for d, clk, n in grid_durations(thorough):
            add(api, "seq", [("dur", d, clk)], clk=clk, wmax=25)
        # Waiter with a Duration maximum
        if api == "waiter":
            add(api, "seq", [("dur", ("ns", "8"), "4ns")], clk="4ns", wmax=("ns", "12"))
            add(api, "seq", [C(3)], clk="4ns", wmax=("ns", "12"))
            add(api, "seq", [R()], clk="4ns", wmax=("ns", "28"))
            add(api, "seq", [C(2)], clk="3ns", wmax=("ns", "10"))  # non-dividing maximum
    return out


def _fmt(v):
    if isinstance(v, (list, tuple)):
        return f"{v[0]}({v[1]})"
    return str(v)


def _fmt_spec(s):
    if s[0] == "const":
        return f"{s[1]}" + ("z" if s[2] else "")
    if s[0] == "rt":
        return "rt" + ("z" if s[2] else "")
    return f"{s[1][0]}({s[1][1]})"


# =============================================================================================
# delayed / DelayLine
# =============================================================================================
DELAY_TYPES = {
    # name: (cohdl type, values, {initial name: (source, value)})
    "Bit": ("Bit", (0, 1), {"none": (None, None), "False": ("False", 0), "True": ("True", 1), "Null": ("Null", 0),
                              "Full": ("Full", 1)}),
    "BitVector2": ("BitVector[2]", (0, 1, 2, 3), {"none": (None, None), "Null": ("Null", 0), "Full": ("Full", 3),
                                                    "lit": ("BitVector[2](\"10\")", 2)}),
    "Unsigned2": ("Unsigned[2]", (0, 1, 2, 3), {"none": (None, None), "Null": ("Null", 0), "Full": ("Full", 3),
                                                  "lit": ("Unsigned[2](1)", 1)}),
}


def build_delay(cfg):
    ty, values, inits = DELAY_TYPES[cfg["type"]]
    isrc, ival = inits[cfg["initial"]]
    n = cfg["delay"]
    api = cfg["api"]  # "delayed" | "line" | "ctxline"
    gated = cfg["gated"]
    taps = [n] if api == "delayed" else list(range(n + 1))
    src = [HEADER, "class T(Entity):", "    clk = Port.input(Bit)", f"    x = Port.input({ty})"]
    if gated:
        src.append("    en = Port.input(Bit)")
    ctx = cfg.get("ctx")
    if ctx:
        src.append("    rst = Port.input(Bit)")
    if cfg.get("step"):
        src.append("    step = Port.input(Bit)")
    for k in taps:
        src.append(f"    o{k} = Port.output({ty})")
    if api != "delayed":
        src.append("    olen = Port.output(Unsigned[3])")
    src.append("    def architecture(self):")
    init_arg = "" if isrc is None else f", initial={isrc}"
    if api == "ctxline":
        src.append("        ctx = std.SequentialContext(std.Clock(self.clk))")
        src.append(f"        line = std.DelayLine(self.x, {n}{init_arg}, ctx=ctx)")
        for k in taps:
            src.append(f"        std.concurrent_assign(self.o{k}, line[{k}])")
        src.append("        std.concurrent_assign(self.olen, len(line))")
    else:
        src.append(f"        @std.sequential(std.Clock(self.clk){reset_src(ctx)}{step_src(cfg)})")
        src.append("        def proc():")
        ind = "            "
        if gated:
            src.append(ind + "if self.en:")
            ind += "    "
        if api == "delayed":
            src.append(ind + f"self.o{n} <<= std.delayed(self.x, {n}{init_arg})")
        else:
            src.append(ind + f"line = std.DelayLine(self.x, {n}{init_arg})")
            for k in taps[:-1]:
                src.append(ind + f"self.o{k} <<= line[{k}]")
            src.append(ind + f"self.o{n} <<= line.last()")
            src.append(ind + "self.olen <<= len(line)")
    src.append("")
    model = M.DelayModel(n, taps, values, ival, mode="ctx" if api == "ctxline" else "seq", gated=gated)
    if api != "delayed":
        model = _WithConst(model, "olen", n + 1, registered=(api == "line"))
    if cfg.get("step"):
        model = M.StepGated(model)
    if ctx:
        # the reset of the context is present but held inactive (reset values of delay elements: C04's business)
        model = M.HeldInput(model, "rst", 1 if ctx[0] == "l" else 0)
    return "\n".join(src), model, "either"


class _WithConst:
    """adds a constant output (len(line)) to a model; `registered`: assigned in the (possibly gated) process,
    hence unknown until the process has assigned it once"""

    def __init__(self, inner, name, value, registered):
        self.inner = inner
        self.value = value
        self.registered = registered
        self.input_names = inner.input_names
        self.menu = inner.menu
        self.outputs = inner.outputs + [name]

    def init(self):
        return [(s, None if self.registered else self.value) for s in self.inner.init()]

    def step(self, st, inp):
        s, c = st
        out = []
        for s2, exp in self.inner.step(s, inp):
            c2 = c
            if self.registered and not (self.inner.gated and not inp[1]):
                c2 = self.value
            out.append(((s2, c2), exp + (c2,)))
        return out


def delay_configs(thorough):
    out = []
    for tname, (_, _, inits) in DELAY_TYPES.items():
        for n in range(0, 5 if thorough else 4):
            if tname != "Bit" and n > (3 if thorough else 2):
                continue
            for api in ("delayed", "line", "ctxline"):
                for gated in (False, True):
                    if api == "ctxline" and gated:
                        continue
                    for iname in inits:
                        cfg = {"family": "delay", "type": tname, "delay": n, "api": api, "gated": gated, "initial": iname}
                        cfg["key"] = f"delay/{api}/{tname}/n={n}/initial={iname}/" + ("gated" if gated else "always")
                        out.append(cfg)
    # step condition x reset flavour (reset held inactive)
    for tname in (("Bit", "Unsigned2") if thorough else ("Bit",)):
        for n in range(0, 4 if thorough else 3):
            for api in ("delayed", "line"):
                for gated in (False, True):
                    for iname in ("none", "Full"):
                        for ctx in _step_ctxs(thorough):
                            cfg = {"family": "delay", "type": tname, "delay": n, "api": api, "gated": gated,
                                   "initial": iname, "ctx": ctx, "step": True}
                            cfg["key"] = f"delay/{api}/{tname}/n={n}/initial={iname}/" + \
                                ("gated" if gated else "always") + _ctx_key(ctx, True)
                            out.append(cfg)
    return out


# =============================================================================================
# continuous_counter
# =============================================================================================
def build_counter(cfg):
    rt = cfg["limit"] == "rt"
    bits = cfg.get("bits", 2)
    src = [HEADER, "class T(Entity):", "    clk = Port.input(Bit)"]
    ctx = cfg.get("ctx")
    if ctx:
        src.append("    rst = Port.input(Bit)")
    if rt:
        src.append(f"    lim = Port.input(Unsigned[{bits}])")
    if cfg.get("step"):
        src.append("    step = Port.input(Bit)")
    src += ["    cnt = Port.output(Unsigned[4])", "    onext = Port.output(Unsigned[4])", "    def architecture(self):",
            "        def cb(v):", "            self.onext <<= v"]
    src.append(f"        ctx = std.SequentialContext(std.Clock(self.clk){reset_src(ctx)}{step_src(cfg)})")
    lim = "self.lim" if rt else str(cfg["limit"])
    src.append(f"        c = std.continuous_counter(ctx, {lim}, on_change=cb)")
    src.append("        std.concurrent_assign(self.cnt, c)")
    src.append("")
    model = M.CounterModel(None if rt else cfg["limit"], limit_values=tuple(range(1 << bits)) if rt else None,
                           has_rst=bool(ctx), maxval=(1 << bits) - 1 if rt else 15,
                           rst_active_low=bool(ctx) and ctx[0] == "l")
    if cfg.get("step"):
        model = M.StepGated(model)
    return "\n".join(src), model, "either"


def counter_configs(thorough):
    out = []
    lims = list(range(0, 9 if thorough else 5)) + ["rt"]
    for lim in lims:
        for ctx in (None,) + CTX_FLAVOURS:
            cfg = {"family": "counter", "limit": lim, "ctx": ctx}
            cfg["key"] = f"counter/limit={lim}" + _ctx_key(ctx)
            out.append(cfg)
    for lim in ((1, 2, 3, "rt") if thorough else (2, "rt")):
        for ctx in _step_ctxs(thorough):
            out.append({"family": "counter", "limit": lim, "ctx": ctx, "step": True,
                        "key": f"counter/limit={lim}" + _ctx_key(ctx, True)})
    if thorough:
        for ctx in (None,) + CTX_FLAVOURS:
            out.append({"family": "counter", "limit": "rt", "ctx": ctx, "bits": 3,
                        "key": "counter/limit=rt3" + _ctx_key(ctx)})
    return out


# =============================================================================================
# ToggleSignal / ClockDivider
# =============================================================================================
def _toggle_like_ports(cfg, extra_inputs):
    src = [HEADER, "class T(Entity):", "    clk = Port.input(Bit)"]
    if cfg.get("ctx"):
        extra_inputs = list(extra_inputs) + [("rst", "Bit")]
    if cfg.get("step"):
        extra_inputs = list(extra_inputs) + [("step", "Bit")]
    for name, ty in extra_inputs:
        src.append(f"    {name} = Port.input({ty})")
    src += ["    state = Port.output(Bit)", "    rising = Port.output(Bit)", "    falling = Port.output(Bit)",
            "    cb_r = Port.output(Bit, default=False)", "    cb_f = Port.output(Bit, default=False)",
            "    def architecture(self):", "        def on_r():", "            self.cb_r ^= True",
            "        def on_f():", "            self.cb_f ^= True"]
    return src


def _toggle_like_tail(cfg, src):
    if cfg["style"] == "sig":
        src.append("        std.concurrent_assign(t.get_reset_signal(), self.dis)")
    elif cfg["style"] == "call":
        src += ["        @std.sequential(std.Clock(self.clk))", "        def ctrl():", "            if self.en:",
                "                t.enable()", "            else:", "                t.disable()"]
    src += ["        std.concurrent_assign(self.state, t.state())", "        std.concurrent_assign(self.rising, t.rising())",
            "        std.concurrent_assign(self.falling, t.falling())", ""]


def _dur_arg(v, clk, port, bits_default=2):
    """v: int | "rt" | ["dur", unit, text] -> (source, model value, rt?, ticks/None-if-nondividing)"""
    if v == "rt":
        return f"self.{port}", None, True
    if isinstance(v, (list, tuple)):
        t = M.duration_ticks((v[1], v[2]), CLOCKS[clk])
        return dur_src((v[1], v[2])), t, False
    return str(v), v, False


def build_toggle(cfg):
    clk = cfg.get("clk")
    bits = cfg.get("bits", 2)
    f_src, f_val, f_rt = _dur_arg(cfg["first"], clk, "first")
    second = cfg["second"]
    if second is None:
        s_src, s_val, s_rt = None, f_val, False
        if f_rt:
            s_rt = False
    else:
        s_src, s_val, s_rt = _dur_arg(second, clk, "second")
    ins = []
    if f_rt:
        ins.append(("first", f"Unsigned[{bits}]"))
    if s_rt:
        ins.append(("second", f"Unsigned[{bits}]"))
    if cfg["style"] == "sig":
        ins.append(("dis", "Bit"))
    elif cfg["style"] == "call":
        ins.append(("en", "Bit"))
    src = _toggle_like_ports(cfg, ins)
    src.append(f"        ctx = std.SequentialContext({clock_src(clk)}{reset_src(cfg.get('ctx'))}{step_src(cfg)})")
    args = [f_src] + ([s_src] if s_src is not None else [])
    args += [f"default_state={bool(cfg['default_state'])}", f"first_state={bool(cfg['first_state'])}",
             f"require_enable={bool(cfg['require_enable'])}", "on_rising=on_r", "on_falling=on_f"]
    src.append(f"        t = std.ToggleSignal(ctx, {', '.join(args)})")
    _toggle_like_tail(cfg, src)
    expect = "either"
    for v, val in ((cfg["first"], f_val), (second, s_val)):
        if isinstance(v, (list, tuple)):
            if val is None:
                expect = "reject"
            elif expect != "reject":
                expect = "accept"
    if expect == "reject":
        return "\n".join(src), None, expect
    vals = tuple(range(1 << bits))
    rk = dict(ctx_rst=bool(cfg.get("ctx")), rst_active_low=bool(cfg.get("ctx")) and cfg["ctx"][0] == "l",
              async_rst=bool(cfg.get("ctx")) and cfg["ctx"][1] == "a")
    if second is None and f_rt:
        # one run-time value used for both durations
        model = _SameDuration(M.ToggleModel(None, None, first_values=vals, second_values=vals,
                                            default_state=cfg["default_state"], first_state=cfg["first_state"],
                                            require_enable=cfg["require_enable"], style=cfg["style"], **rk))
    else:
        model = M.ToggleModel(f_val, s_val, first_values=vals if f_rt else None, second_values=vals if s_rt else None,
                              default_state=cfg["default_state"], first_state=cfg["first_state"],
                              require_enable=cfg["require_enable"], style=cfg["style"], **rk)
    if cfg.get("step"):
        assert cfg["style"] != "call"  # the enable()/disable() process of the wrapper has no step condition
        model = M.StepGated(model, pulse_outputs=("cb_r", "cb_f"))
    return "\n".join(src), model, expect


class _SameDuration:
    """ToggleSignal(ctx, x) with run-time x: second_duration = first_duration"""

    def __init__(self, inner):
        self.inner = inner
        names = inner.input_names
        self.keep = [i for i, n in enumerate(names) if n != "second"]
        self.input_names = [names[i] for i in self.keep]
        fi, si = names.index("first"), names.index("second")
        self.menu = [tuple(m[i] for i in self.keep) for m in inner.menu if m[fi] == m[si]]
        self.outputs = inner.outputs
        self._fi = self.input_names.index("first")
        self._si = si

    def init(self):
        return self.inner.init()

    def step(self, st, inp):
        full = list(inp)
        full.insert(self._si, inp[self._fi])
        return self.inner.step(st, tuple(full))


def build_divider(cfg):
    clk = cfg.get("clk")
    bits = cfg.get("bits", 2)
    d_src, d_val, d_rt = _dur_arg(cfg["duration"], clk, "dur")
    ins = []
    if d_rt:
        ins.append(("dur", f"Unsigned[{bits}]"))
    if cfg["style"] == "sig":
        ins.append(("dis", "Bit"))
    elif cfg["style"] == "call":
        ins.append(("en", "Bit"))
    src = _toggle_like_ports(cfg, ins)
    src.append(f"        ctx = std.SequentialContext({clock_src(clk)}{reset_src(cfg.get('ctx'))}{step_src(cfg)})")
    args = [d_src, f"default_state={bool(cfg['default_state'])}", f"tick_at_start={bool(cfg['tick_at_start'])}",
            f"require_enable={bool(cfg['require_enable'])}", "on_rising=on_r", "on_falling=on_f"]
    src.append(f"        t = std.ClockDivider(ctx, {', '.join(args)})")
    _toggle_like_tail(cfg, src)
    expect = "either"
    if isinstance(cfg["duration"], (list, tuple)):
        if d_val is None:
            return "\n".join(src), None, "reject"
        # the implementation documents (assertion text) that a constant period must be greater than 1
        expect = "accept" if d_val >= 2 else "either"
    model = M.DividerModel(d_val, duration_values=tuple(range(1, 1 << bits)) if d_rt else None,
                           default_state=cfg["default_state"], tick_at_start=cfg["tick_at_start"],
                           require_enable=cfg["require_enable"], style=cfg["style"], ctx_rst=bool(cfg.get("ctx")),
                           rst_active_low=bool(cfg.get("ctx")) and cfg["ctx"][0] == "l",
                           async_rst=bool(cfg.get("ctx")) and cfg["ctx"][1] == "a")
    if cfg.get("step"):
        assert cfg["style"] != "call"
        model = M.StepGated(model, pulse_outputs=("cb_r", "cb_f"))
    return "\n".join(src), model, expect


def _opts_key(cfg, names):
    return ",".join(f"{n}={int(bool(cfg[n]))}" for n in names)


def toggle_configs(thorough):
    out = []
    pmax = 6

    def add(first, second, ds, fs, re, style, clk=None, **kw):
        cfg = {"family": "toggle", "first": first, "second": second, "default_state": ds, "first_state": fs,
               "require_enable": re, "style": style}
        if clk:
            cfg["clk"] = clk
        cfg.update(kw)
        cfg["key"] = f"toggle/first={_fmt_d(first)}/second={_fmt_d(second)}/" + \
            _opts_key(cfg, ("default_state", "first_state", "require_enable")) + f"/{style}" + \
            (f"/clk={clk}" if clk else "") + (f"/bits={kw['bits']}" if "bits" in kw else "") + _ctx_key(kw.get("ctx"), kw.get("step"))
        out.append(cfg)

    dsfs = [(ds, fs) for ds in (0, 1) for fs in (0, 1)]
    # control flavours (style, require_enable).  With style "sig" the reset signal is driven from an input, which
    # overrides require_enable's initial value; with style "none" and require_enable the toggle never starts.  The
    # quick tier keeps one representative of those redundant/constant combinations, the thorough tier all of them.
    if thorough:
        controls = [(st, re) for st in ("none", "sig", "call") for re in (0, 1)]
    else:
        controls = [("none", 0), ("sig", 0), ("call", 0), ("call", 1)]
    never = [("none", 1)]

    # contexts with a reset (every flavour): the toggle lives in ctx.or_reset(reset_signal)
    for ctx in CTX_FLAVOURS:
        for st, re in controls + ([] if thorough else never):
            for ds, fs in dsfs:
                for first, second in (((2, 1), (1, None), (3, 2)) if thorough else ((2, 1),)):
                    add(first, second, ds, fs, re, st, ctx=ctx)
                if thorough or (ds, fs) == (0, 0):
                    add("rt", 2, ds, fs, re, st, ctx=ctx)
                if thorough:
                    add("rt", "rt", ds, fs, re, st, ctx=ctx)
    # step condition x reset flavour
    for ctx in _step_ctxs(thorough):
        for st in ("none", "sig"):
            for ds, fs in dsfs:
                add(2, 1, ds, fs, 0, st, ctx=ctx, step=True)
                if thorough:
                    add(1, None, ds, fs, 0, st, ctx=ctx, step=True)
            add("rt", 2, 0, 0, 0, st, ctx=ctx, step=True)
        add(["dur", "ns", "8"], None, 0, 0, 0, "sig", clk="4ns", ctx=ctx, step=True)
    # constant durations: 50% duty (second omitted) and explicit pairs, incl. the documented 1/0 and 0/1 corners
    if thorough:
        pairs = [(a, None) for a in range(1, pmax + 1)] + \
                [(a, b) for a in range(0, pmax) for b in range(0, pmax) if (a, b) != (0, 0) and a + b <= pmax + 1]
    else:
        pairs = [(a, None) for a in (1, 2, 3)] + [(a, b) for a in range(0, 3) for b in range(0, 3) if 1 <= a + b <= 3]
    pairs.append((0, 0))
    for first, second in pairs:
        for ds, fs in dsfs:
            for st, re in controls:
                if (st, re) == ("none", 1):
                    continue
                add(first, second, ds, fs, re, st)
            if (first, second) in ((1, None), (2, 1)):
                add(first, second, ds, fs, 1, "none")  # never enabled: constant default output
    # run-time durations (2-bit inputs; 3-bit in the thorough tier)
    for ds, fs in dsfs:
        for st, re in controls:
            if (st, re) == ("none", 1):
                continue
            add("rt", "rt", ds, fs, re, st)
            add("rt", None, ds, fs, re, st)
            add("rt", 2, ds, fs, re, st)
            add(1, "rt", ds, fs, re, st)
            if thorough:
                add("rt", "rt", ds, fs, re, st, bits=3)
                add(3, "rt", ds, fs, re, st)
                add("rt", 0, ds, fs, re, st)
    # Duration arguments
    for clk, durs in DURATIONS.items():
        for d in durs:
            for fs in ((0, 1) if thorough else (0,)):
                add(["dur", d[0], d[1]], None, 0, fs, 0, "sig", clk=clk)
        add(["dur", durs[1][0], durs[1][1]], ["dur", durs[0][0], durs[0][1]], 0, 0, 0, "sig", clk=clk)
        add(["dur", durs[0][0], durs[0][1]], 2, 0, 0, 0, "sig", clk=clk)
        add(["dur", durs[0][0], durs[0][1]], "rt", 0, 0, 0, "sig", clk=clk)
    for d, clk, n in grid_durations(thorough):
        add(["dur", d[0], d[1]], None, 0, 0, 0, "sig", clk=clk)
    return out


def _fmt_d(v):
    if isinstance(v, (list, tuple)):
        return f"{v[1]}({v[2]})"
    return str(v)


def divider_configs(thorough):
    out = []
    pmax = 7 if thorough else 4

    def add(duration, ds, tas, re, style, clk=None, **kw):
        cfg = {"family": "divider", "duration": duration, "default_state": ds, "tick_at_start": tas,
               "require_enable": re, "style": style}
        if clk:
            cfg["clk"] = clk
        cfg.update(kw)
        cfg["key"] = f"divider/duration={_fmt_d(duration)}/" + \
            _opts_key(cfg, ("default_state", "tick_at_start", "require_enable")) + f"/{style}" + \
            (f"/clk={clk}" if clk else "") + (f"/bits={kw['bits']}" if "bits" in kw else "") + _ctx_key(kw.get("ctx"), kw.get("step"))
        out.append(cfg)

    dstas = [(ds, tas) for ds in (0, 1) for tas in (0, 1)]
    if thorough:
        controls = [(st, re) for st in ("none", "sig", "call") for re in (0, 1)]
    else:
        controls = [("none", 0), ("none", 1), ("sig", 0), ("call", 0), ("call", 1)]  # see toggle_configs
    for ctx in CTX_FLAVOURS:
        for st, re in controls:
            for ds, tas in dstas:
                for d in ((2, 3, 5, "rt") if thorough else (3, "rt")):
                    add(d, ds, tas, re, st, ctx=ctx)
    for ctx in _step_ctxs(thorough):
        for st in ("none", "sig"):
            for ds, tas in dstas:
                add(3, ds, tas, 0, st, ctx=ctx, step=True)
                if thorough:
                    add(2, ds, tas, 0, st, ctx=ctx, step=True)
            add("rt", 0, 0, 0, st, ctx=ctx, step=True)
        add(["dur", "ns", "8"], 0, 0, 0, "sig", clk="4ns", ctx=ctx, step=True)
    for d in list(range(1, pmax + 1)) + ["rt"]:
        for ds, tas in dstas:
            for st, re in controls:
                if (st, re) == ("none", 1) and d not in (2, 3):
                    continue
                add(d, ds, tas, re, st)
                if thorough and d == "rt":
                    add(d, ds, tas, re, st, bits=3)
    for clk, durs in DURATIONS.items():
        for d in durs:
            for tas in (0, 1):
                add(["dur", d[0], d[1]], 0, tas, 0, "sig", clk=clk)
    for d, clk, n in grid_durations(thorough):
        add(["dur", d[0], d[1]], 0, 0, 0, "sig", clk=clk)
    return out


# =============================================================================================
# debounce
# =============================================================================================
def build_debounce(cfg):
    clk = cfg.get("clk")
    p_src, p_val, _ = _dur_arg(cfg["period"], clk, None)
    src = [HEADER, "class T(Entity):", "    clk = Port.input(Bit)", "    inp = Port.input(Bit)"]
    ctx = cfg.get("ctx")
    if ctx:
        src.append("    rst = Port.input(Bit)")
    if cfg.get("step"):
        src.append("    step = Port.input(Bit)")
    src += ["    o = Port.output(Bit)", "    def architecture(self):"]
    src.append(f"        ctx = std.SequentialContext({clock_src(clk)}{reset_src(ctx)}{step_src(cfg)})")
    ini = {None: "", 0: ", initial=False", 1: ", initial=True"}[cfg["initial"]]
    src.append(f"        std.concurrent_assign(self.o, std.debounce(ctx, self.inp, {p_src}{ini}))")
    src.append("")
    expect = "either"
    if isinstance(cfg["period"], (list, tuple)):
        if p_val is None:
            return "\n".join(src), None, "reject"
        expect = "accept"
    model = M.DebounceModel(p_val, initial=cfg["initial"] or 0, has_rst=bool(ctx),
                            rst_active_low=bool(ctx) and ctx[0] == "l")
    if cfg.get("step"):
        model = M.StepGated(model)
    return "\n".join(src), model, expect


def debounce_configs(thorough):
    out = []

    def add(period, initial, ctx, clk=None, step=False):
        cfg = {"family": "debounce", "period": period, "initial": initial, "ctx": ctx}
        if clk:
            cfg["clk"] = clk
        if step:
            cfg["step"] = True
        cfg["key"] = f"debounce/period={_fmt_d(period)}/initial={initial}" + (f"/clk={clk}" if clk else "") + \
            _ctx_key(ctx, step)
        out.append(cfg)

    for ctx in _step_ctxs(thorough):
        for p in ((1, 2, 3, 4, 6) if thorough else (1, 2, 3)):
            for initial in (0, 1):
                add(p, initial, ctx, step=True)
        add(["dur", "ns", "12"], 0, ctx, clk="4ns", step=True)

    for p in range(1, 13 if thorough else 6):
        for initial in (None, 0, 1):
            for ctx in (None,) + CTX_FLAVOURS:
                add(p, initial, ctx)
    for clk, durs in DURATIONS.items():
        for d in durs:
            for initial in (0, 1):
                add(["dur", d[0], d[1]], initial, None, clk=clk)
    for d, clk, n in grid_durations(thorough):
        add(["dur", d[0], d[1]], 0, None, clk=clk)
    return out


# =============================================================================================
BUILDERS = {"wait": build_wait, "delay": build_delay, "counter": build_counter, "toggle": build_toggle,
            "divider": build_divider, "debounce": build_debounce}


def build(cfg):
    return BUILDERS[cfg["family"]](cfg)


def all_configs(thorough):
    out = []
    out += wait_configs(thorough)
    out += delay_configs(thorough)
    out += counter_configs(thorough)
    out += toggle_configs(thorough)
    out += divider_configs(thorough)
    out += debounce_configs(thorough)
    seen = {}
    res = []
    for c in out:
        if c["key"] in seen:
            continue
        seen[c["key"]] = 1
        res.append(c)
    return res

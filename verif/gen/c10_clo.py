"""C10 family `clo`: closures, nonlocal, local functions and lambdas.

scope   Scope trees, enumerated completely: 2 or 3 nested functions; the innermost returns the name x; at every level x
        is bound in one of the ways  - (not bound) | param | pre (assigned before the inner function is defined) |
        post (assigned after the inner definition, before the inner call) | nl (`nonlocal x; x = ...`, inner levels
        only); optionally also a module global x; innermost function written as def or lambda; the inner function is
        either called by its definer or returned and called by the outermost function.  Programs CPython refuses to
        compile (nonlocal without binding, ...) are not cases; programs where CPython raises (unbound names) carry no claim.
names   Name resolution / shadowing chains for ONE name, enumerated completely: the name is x or the builtin name abs;
        optionally a module global of that name; a chain of 2 or 3 factory functions f1 -> f2 -> f3, each level binding
        the name as  - (not bound) | param | local; the innermost (def or lambda) returns (name, a real module global).
        Where the closures come into being:  module (whole chain evaluated natively at module level, only the innermost
        closure is called in the synthesizable context) | mid (f1 evaluated natively, the f2 closure is called in the
        context and creates f3 there) | ctx (everything called inside the context) | method (f1 is a method of an object
        built at module level).  So every combination of local / parameter / enclosing cell / enclosing-enclosing cell /
        module global / builtin bindings of the same name occurs, for closures made outside and inside the context.
sib     Sibling function objects made by ONE def / lambda (one code object, no closure) that differ only in their
        default values: makers lamcomp ([lambda x, k=k: ... for k in ...] at module level), defloop (def in a module
        level for loop), factory / factorylam (argument used only in the default expression), localcomp (the lambda
        comprehension inside the traced function); default kinds pos (x, k=d) | kwonly (x, *, k=d) | both
        (x, k=d, *, s=d * 10); 2 or 3 siblings; every call order (all permutations) x every subset of calls
        overriding the default.
loop    Functions created in loops / comprehensions reading the loop variable, called inside or after the loop
        (late binding), with and without the default-argument idiom.
misc    A table of idioms: counters, accumulators via nonlocal, recursion (self / mutual / module level), higher-order
        functions, lambdas returning lambdas, closures over *args/**kwargs and self.
"""
from __future__ import annotations

import itertools

from .c10_common import case

X = "x__S__"


def _scope_program(depth, binds, glob, form, invoke):
    """binds[i]: how level i+1 binds x (outermost = level 1).  Returns (defs, call)."""
    lines = []
    if glob:
        lines.append(f"{X} = 'g'")

    def arg(level):
        return f"'p{level}'" if binds[level - 1] == "param" else ""

    def emit_body(level, ind):
        b = binds[level - 1]
        if b == "nl":
            lines.append(f"{ind}nonlocal {X}")
            lines.append(f"{ind}{X} = 'n{level}'")
        if b == "pre":
            lines.append(f"{ind}{X} = 'l{level}'")
        if level == depth:
            lines.append(f"{ind}return {X}")
            return
        nxt = level + 1
        par = X if binds[nxt - 1] == "param" else ""
        if nxt == depth and form == "lambda":
            lines.append(f"{ind}f{nxt} = lambda {par}: {X}")
        else:
            lines.append(f"{ind}def f{nxt}({par}):")
            emit_body(nxt, ind + "    ")
        if b == "post":
            lines.append(f"{ind}{X} = 'l{level}'")
        if invoke == "returned" and nxt == depth:
            lines.append(f"{ind}return f{nxt}")
        else:
            lines.append(f"{ind}return f{nxt}({arg(nxt)})")

    lines.append(f"def case__S__({X if binds[0] == 'param' else ''}):")
    emit_body(1, "    ")
    call = f"case__S__({arg(1)})"
    if invoke == "returned":
        call += f"({arg(depth)})"
    return "\n".join(lines) + "\n", call


def scope_cases():
    for depth in (2, 3):
        l1 = ("-", "param", "pre", "post")
        mid = ("-", "param", "pre", "post", "nl")
        for form in ("def", "lambda"):
            last = ("-", "param", "pre", "nl") if form == "def" else ("-", "param")
            levels = [l1] + [mid] * (depth - 2) + [last]
            for binds in itertools.product(*levels):
                for glob in (False, True):
                    for invoke in ("direct", "returned"):
                        defs, call = _scope_program(depth, binds, glob, form, invoke)
                        try:
                            compile(defs.replace("__S__", "_c0"), "<gen>", "exec")
                        except SyntaxError:
                            continue
                        key = f"clo/scope/d{depth}/{'.'.join(binds)}/{'g' if glob else '-'}/{form}/{invoke}"
                        yield case(key, defs, call)


def _names_program(name, glob, binds, where, form):
    depth = len(binds)
    lines = ["g2__S__ = 'G2'"]
    if glob:
        lines.append(f"{name} = 'g'")

    def arg(level):
        return f"'p{level}'" if binds[level - 1] == "param" else ""

    def emit(level, ind, fname, first=""):
        b = binds[level - 1]
        par = ", ".join(x for x in (first, name if b == "param" else "") if x)
        last = level == depth
        if last and form == "lambda" and b != "local" and not first:
            lines.append(f"{ind}{fname} = lambda {par}: ({name}, g2__S__)")
            return
        lines.append(f"{ind}def {fname}({par}):")
        if b == "local":
            lines.append(f"{ind}    {name} = 'l{level}'")
        if last:
            lines.append(f"{ind}    return ({name}, g2__S__)")
            return
        emit(level + 1, ind + "    ", f"f{level + 1}")
        lines.append(f"{ind}    return f{level + 1}")

    if where == "method":
        lines.append("class K__S__:")
        emit(1, "    ", "mk", first="self")
        lines.append("k__S__ = K__S__()")
        f1 = "k__S__.mk"
    else:
        emit(1, "", "f1__S__")
        f1 = "f1__S__"
    chain = [f"({arg(l)})" for l in range(1, depth + 1)]
    native = {"module": depth - 1, "method": depth - 1, "mid": 1, "ctx": 0}[where]
    if native:
        lines.append(f"h__S__ = {f1}{''.join(chain[:native])}")
        call = "h__S__" + "".join(chain[native:])
    else:
        call = f1 + "".join(chain)
    return "\n".join(lines) + "\n", call


def names_cases():
    for name in (X, "abs"):
        for glob in (False, True):
            for depth in (2, 3):
                for binds in itertools.product(("-", "param", "local"), repeat=depth):
                    for where in ("module", "mid", "ctx", "method"):
                        if where == "mid" and depth == 2:
                            continue  # identical to module
                        for form in ("def", "lambda"):
                            if form == "lambda" and binds[-1] == "local":
                                continue
                            defs, call = _names_program(name, glob, binds, where, form)
                            key = f"clo/names/{'x' if name == X else name}/{'g' if glob else '-'}/{'.'.join(binds)}/{where}/{form}"
                            yield case(key, defs, call, solo=(glob and name == "abs"))


SIB_VALS = (2, 3, 5)
SIB_KINDS = {
    # kind: (parameter list with {d} = default expression, returned tuple, override argument text)
    "pos": ("x, k={d}", "(x, k)", ", 9"),
    "kwonly": ("x, *, k={d}", "(x, k)", ", k=9"),
    "both": ("x, k={d}, *, s={d} * 10", "(x, k, s)", ", s=9"),
}


def _sib_maker(maker, kind, n):
    """-> (module level source, body prefix of case(), name of the list)"""
    params, ret, _ = SIB_KINDS[kind]
    vals = repr(SIB_VALS[:n])
    if maker == "lamcomp":
        return f"fs__S__ = [lambda {params.format(d='d')}: {ret} for d in {vals}]\n", "", "fs__S__"
    if maker == "defloop":
        return (f"fs__S__ = []\nfor d__S__ in {vals}:\n    def g__S__({params.format(d='d__S__')}):\n        return {ret}\n"
                f"    fs__S__.append(g__S__)\n"), "", "fs__S__"
    if maker == "factory":
        return (f"def mk__S__(n):\n    def g({params.format(d='(n + 1)')}):\n        return {ret}\n    return g\n"
                f"fs__S__ = [mk__S__(n) for n in {vals}]\n"), "", "fs__S__"
    if maker == "factorylam":
        return (f"def mk__S__(n):\n    return lambda {params.format(d='(n + 1)')}: {ret}\n"
                f"fs__S__ = [mk__S__(n) for n in {vals}]\n"), "", "fs__S__"
    if maker == "localcomp":
        return "", f"    fs = [lambda {params.format(d='d')}: {ret} for d in {vals}]\n", "fs"
    raise ValueError(maker)


def sib_cases():
    for maker in ("lamcomp", "defloop", "factory", "factorylam", "localcomp"):
        for kind, (_, _, over) in SIB_KINDS.items():
            for n in (2, 3):
                mod, pre, name = _sib_maker(maker, kind, n)
                for order in itertools.permutations(range(n)):
                    for ov in itertools.product((False, True), repeat=n):
                        calls = ", ".join(f"{name}[{i}](1{over if o else ''})" for i, o in zip(order, ov))
                        key = f"clo/sib/{maker}/{kind}/{n}/{''.join(map(str, order))}/{''.join('o' if o else 'd' for o in ov)}"
                        yield case(key, mod + f"def case__S__():\n{pre}    return [{calls}]\n", "case__S__()")


LOOP = {
    # name: body of case(); result returned
    "comp_lambda_after": "    fs = [lambda: i for i in range(3)]\n    return [f() for f in fs]\n",
    "comp_lambda_inside": "    return [(lambda: i)() for i in range(3)]\n",
    "comp_lambda_arg": "    fs = [lambda k: i + k for i in range(3)]\n    return [f(10) for f in fs]\n",
    "comp_lambda_default": "    fs = [lambda i=i: i for i in range(3)]\n    return [f() for f in fs]\n",
    "comp_def_factory": "    def mk(i):\n        return lambda: i\n    fs = [mk(i) for i in range(3)]\n    return [f() for f in fs]\n",
    "comp_outer_var": "    n = 5\n    fs = [lambda: n for i in range(2)]\n    return [f() for f in fs]\n",
    "for_def_inside": "    for i in range(3):\n        def g():\n            return i\n        r = g()\n    return 0\n",
    "for_lambda_tuple": "    fs = tuple([lambda: (i, j) for i, j in [(1, 2), (3, 4)]])\n    return [f() for f in fs]\n",
    "dictcomp_lambda": "    d = {k: (lambda: k) for k in 'ab'}\n    return [d['a'](), d['b']()]\n",
    "nested_comp_lambda": "    fs = [[lambda: (i, j) for j in range(2)] for i in range(2)]\n    return [f() for row in fs for f in row]\n",
    "nested_comp_lambda2": "    fs = [[lambda: (i, j) for j in range(2)] for i in range(2)]\n    return [[f() for f in row] for row in fs]\n",
    "comp_method": "    class_like = [(lambda v: (lambda: v))(i) for i in range(3)]\n    return [f() for f in class_like]\n",
}

MISC_PRE = (
    "def mfact__S__(k):\n    return 1 if k <= 0 else k * mfact__S__(k - 1)\n"
    "def meven__S__(k):\n    return True if k == 0 else modd__S__(k - 1)\n"
    "def modd__S__(k):\n    return False if k == 0 else meven__S__(k - 1)\n"
    "def apply__S__(f, *a, **k):\n    return f(*a, **k)\n"
    "def compose__S__(f, g):\n    return lambda x: f(g(x))\n"
    "def adder__S__(n):\n    def add(x):\n        return x + n\n    return add\n"
    "def counter__S__():\n    n = 0\n    def inc():\n        nonlocal n\n        n = n + 1\n        return n\n    return inc\n"
    "class H__S__:\n    def __init__(self, v):\n        self.v = v\n    def getter(self):\n        return lambda: self.v\n    def adder(self):\n        def add(x):\n            return self.v + x\n        return add\n"
    "GLOB__S__ = 7\n"
    "def readglob__S__():\n    return GLOB__S__\n"
    "def shadow__S__(GLOB__S__):\n    return GLOB__S__\n"
)

MISC = {
    "modrec": "    return mfact__S__(4)\n",
    "modmutual": "    return (meven__S__(4), modd__S__(4))\n",
    "localrec": "    def fact(k):\n        return 1 if k <= 0 else k * fact(k - 1)\n    return fact(4)\n",
    "localmutual": "    def ev(k):\n        return True if k == 0 else od(k - 1)\n    def od(k):\n        return False if k == 0 else ev(k - 1)\n    return ev(3)\n",
    "localmutual2": "    def od(k):\n        return False if k == 0 else ev(k - 1)\n    def ev(k):\n        return True if k == 0 else od(k - 1)\n    return od(3)\n",
    "lambdarec": "    f = lambda k: 1 if k <= 0 else k * f(k - 1)\n    return f(3)\n",
    "apply": "    return apply__S__(lambda a, b=2, *c, d=4: (a, b, c, d), 1, d=9)\n",
    "applystar": "    return apply__S__(adder__S__(3), *[4])\n",
    "compose": "    return compose__S__(adder__S__(1), adder__S__(10))(100)\n",
    "compose_lambda": "    return compose__S__(lambda x: x * 2, lambda x: x + 1)(5)\n",
    "adder2": "    a = adder__S__(1)\n    b = adder__S__(2)\n    return (a(0), b(0), a(b(0)))\n",
    "counter": "    c = counter__S__()\n    return c()\n",
    "counter2": "    c = counter__S__()\n    return (c(), c())\n",
    "nonlocal_read": "    n = 3\n    def g():\n        nonlocal n\n        return n\n    return g()\n",
    "nonlocal_write": "    n = 3\n    def g():\n        nonlocal n\n        n = 4\n        return n\n    return (g(), n)\n",
    "nonlocal_fresh": "    def outer():\n        def g():\n            nonlocal m\n            m = 4\n        g()\n        return m\n        m = 0\n    return outer()\n",
    "lam_lam": "    return (lambda a: lambda b: lambda c: (a, b, c))(1)(2)(3)\n",
    "lam_default_outer": "    k = 5\n    return (lambda a, b=k: (a, b))(1)\n",
    "lam_kwonly": "    return (lambda *, a=1: a)()\n",
    "lam_star": "    return (lambda *a, **k: (a, k))(1, 2, z=3)\n",
    "lam_in_dict": "    d = {'inc': lambda x: x + 1, 'dbl': lambda x: x * 2}\n    return [d['inc'](3), d['dbl'](3)]\n",
    "lam_immediate": "    return (lambda: 5)()\n",
    "lam_cond": "    return (lambda x: 'pos' if x > 0 else 'neg')(-1)\n",
    "self_getter": "    return H__S__(9).getter()()\n",
    "self_adder": "    return H__S__(9).adder()(1)\n",
    "two_instances": "    a = H__S__(1).getter()\n    b = H__S__(2).getter()\n    return (a(), b())\n",
    "readglob": "    return readglob__S__()\n",
    "shadowglob": "    return shadow__S__(1)\n",
    "arg_capture": "    def outer(*a, **k):\n        def g():\n            return (a, k)\n        return g\n    return outer(1, 2, z=3)()\n",
    "param_default_is_param": "    def outer(a, b):\n        def g(c, d=4):\n            return (a, b, c, d)\n        return g(3)\n    return outer(1, 2)\n",
    "closure_in_default": "    n = 2\n    def g(a, f=lambda: 7):\n        return a + f()\n    return g(1)\n",
    "inner_shadows": "    x = 1\n    def g():\n        x = 2\n        return x\n    return (g(), x)\n",
    "inner_param_shadows": "    x = 1\n    def g(x):\n        return x\n    return (g(5), x)\n",
    "three_levels": "    a = 1\n    def f():\n        b = 2\n        def g():\n            c = 3\n            def h():\n                return (a, b, c)\n            return h()\n        return g()\n    return f()\n",
    "return_inner_twice": "    def mk(t):\n        def g():\n            return t\n        return g\n    p = mk('p')\n    q = mk('q')\n    return (p(), q(), p())\n",
    "func_as_default_module": "    return apply__S__(apply__S__, adder__S__(1), 1)\n",
    "builtin_as_value": "    f = len\n    return f([1, 2])\n",
    "builtin_passed": "    return apply__S__(max, 3, 9)\n",
    "method_of_literal": "    f = {'a': 1}.get\n    return f('a')\n",
    "def_after_use_in_other": "    def a():\n        return b()\n    def b():\n        return 3\n    return a()\n",
    "cond_def": "    if True:\n        def g():\n            return 1\n    else:\n        def g():\n            return 2\n    return g()\n",
    "same_name_twice": "    def g():\n        return 1\n    def g():\n        return 2\n    return g()\n",
    "lambda_rebind": "    f = lambda: 1\n    f = lambda: 2\n    return f()\n",
}


def cases(thorough):
    yield from scope_cases()
    yield from names_cases()
    yield from sib_cases()
    for k, body in LOOP.items():
        yield case(f"clo/loop/{k}", f"def case__S__():\n{body}", "case__S__()")
    for k, body in MISC.items():
        yield case(f"clo/misc/{k}", MISC_PRE + f"def case__S__():\n{body}", "case__S__()")


STRIPES = 6


def tasks(thorough, seed):
    return [("clo", thorough, i) for i in range(STRIPES)]


def expand(desc):
    _, thorough, i = desc
    return itertools.islice(cases(thorough), i, None, STRIPES)

"""C11 alphabet: small CoHDL designs, one module file each.

Every module defines `build(arg)` returning the entity class to compile.  Unless stated otherwise the
class is defined at module level, so re-compiling a letter in the same interpreter ("reuse" mode)
compiles the *same* class object again (exercises EntityInfo.instantiated / template caches).

LETTERS: name -> (module key, build argument, expected "accept" | "reject", what it exercises)

The expectation is only used for the vacuity guard and for documentation; the oracle compares against
the outcome observed in a fresh interpreter with an empty history (the golden run).
"""
from __future__ import annotations

HEADER = """\
from __future__ import annotations
import cohdl
from cohdl import std, Entity, Port, Bit, BitVector, Unsigned, Signed, Signal, Variable, Temporary
"""

MODULES: dict[str, str] = {}

# ----------------------------------------------------------------------------------------------
# accepted designs
# ----------------------------------------------------------------------------------------------
MODULES["comb"] = HEADER + """
class T(Entity):
    a = Port.input(Bit)
    b = Port.input(BitVector[4])
    c = Port.input(Unsigned[4])
    x = Port.output(Bit)
    y = Port.output(BitVector[4])
    z = Port.output(Unsigned[4])

    def architecture(self):
        @std.concurrent
        def logic():
            self.x <<= self.a & self.b[0]
            self.y <<= self.b if self.a else self.c.bitvector
            self.z <<= self.c + 1

def build(arg):
    return T
"""

MODULES["coro"] = HEADER + """
class T(Entity):
    clk = Port.input(Bit)
    rst = Port.input(Bit)
    x = Port.input(Bit)
    d = Port.input(Unsigned[3])
    o = Port.output(Bit, default=False)
    q = Port.output(Unsigned[3], default=0)

    def architecture(self):
        async def sub(n):
            await self.x
            self.q <<= self.d + n

        @std.sequential(std.Clock(self.clk), std.Reset(self.rst))
        async def proc():
            await self.x
            self.o <<= True
            while self.d != 0:
                if self.x:
                    await sub(1)
                    continue
                self.q <<= self.q + 1
                await cohdl.true
            await sub(2)
            self.o <<= False

        @std.sequential(std.Clock(self.clk), std.Reset(self.rst, is_async=True, active_low=True))
        async def proc_b():
            await self.x
            await self.d[0]

def build(arg):
    return T
"""

MODULES["hier"] = HEADER + """
class Leaf(Entity):
    a = Port.input(Bit)
    b = Port.input(Bit)
    r = Port.output(Bit)

    def architecture(self):
        @std.concurrent
        def logic():
            self.r <<= self.a ^ self.b

class Mid(Entity):
    a = Port.input(Bit)
    b = Port.input(Bit)
    c = Port.input(Bit)
    r = Port.output(Bit)

    def architecture(self):
        t = Signal[Bit](name="t")
        Leaf(a=self.a, b=self.b, r=t)
        Leaf(a=t, b=self.c, r=self.r)

class T(Entity):
    a = Port.input(Bit)
    b = Port.input(Bit)
    c = Port.input(Bit)
    r0 = Port.output(Bit)
    r1 = Port.output(Bit)
    r2 = Port.output(Bit)

    def architecture(self):
        Mid(a=self.a, b=self.b, c=self.c, r=self.r0)
        Mid(a=self.c, b=self.b, c=self.a, r=self.r1)
        Leaf(a=self.a, b=self.c, r=self.r2)

def build(arg):
    return T
"""

MODULES["inline"] = HEADER + """
class Leaf(Entity):
    a = Port.input(Bit)
    b = Port.input(Bit)
    r = Port.output(Bit)

    def architecture(self):
        @std.concurrent
        def logic():
            self.r <<= self.a | self.b

class T(Entity):
    a = Port.input(Bit)
    b = Port.input(Bit)
    r0 = Port.output(Bit)
    r1 = Port.output(Bit)

    def architecture(self):
        @std.concurrent
        def logic():
            Leaf(a=self.a, b=self.b, r=self.r0)
            t = Signal[Bit](name="t")
            Leaf(a=self.b, b=self.a, r=t)
            self.r1 <<= ~t

def build(arg):
    return T
"""

MODULES["prefix"] = HEADER + """
class T(Entity):
    clk = Port.input(Bit)
    o0 = Port.output(Bit)
    o1 = Port.output(Bit)
    o2 = Port.output(Bit)
    n = Port.output(Unsigned[4])

    def architecture(self):
        ctx = std.SequentialContext(std.Clock(self.clk))
        with std.prefix("grp"):
            a = std.ToggleSignal(ctx, 3)
            with std.prefix("inner"):
                b = std.ToggleSignal(ctx, 2, 1)
                cnt = Signal[Unsigned[4]](0, name=std.name("cnt"))
        with std.prefix("grp"):
            c = std.ToggleSignal(ctx, 1, 2, default_state=True)

        @ctx
        def count():
            nonlocal cnt
            cnt <<= cnt + 1

        @std.concurrent
        def logic():
            self.o0 <<= a.state()
            self.o1 <<= b.state()
            self.o2 <<= c.state()
            self.n <<= cnt

def build(arg):
    return T
"""

MODULES["syncflag"] = HEADER + """
class T(Entity):
    clk = Port.input(Bit)
    rst = Port.input(Bit)
    go_tx = Port.input(Bit)
    go_rx = Port.input(Bit)
    got = Port.output(Bit, default=False)
    done = Port.output(Bit, default=False)
    s = Port.output(Bit)
    c = Port.output(Bit)
    s2 = Port.output(Bit)

    def architecture(self):
        ctx = std.SequentialContext(std.Clock(self.clk), std.Reset(self.rst))
        flag = std.SyncFlag()
        dflag = std.SyncFlag(delay=1)

        # the concurrent observer comes first: it reads the flags with no sequential context active
        @std.concurrent
        def logic():
            self.s <<= flag.is_set()
            self.c <<= flag.is_clear()
            self.s2 <<= dflag.is_set()

        @ctx
        async def sender():
            await self.go_tx
            flag.set()
            dflag.set()
            await flag.is_clear()
            self.done ^= True

        @ctx
        async def receiver():
            await self.go_rx
            await flag.receive()
            await dflag.receive()
            self.got ^= True

def build(arg):
    return T
"""

MODULES["pushed"] = HEADER + """
class T(Entity):
    clk = Port.input(Bit)
    a = Port.input(Bit)
    v = Port.input(BitVector[2])
    p = Port.output(Bit, default=False)
    w = Port.output(BitVector[2], default="00")
    k = Port.output(Bit)

    def architecture(self):
        loc = Signal[Bit](False, name="loc")

        @std.sequential(std.Clock(self.clk))
        def proc():
            if self.a:
                self.p ^= True
                self.w ^= self.v
            else:
                loc.push = True

        @std.concurrent
        def logic():
            self.k <<= loc

def build(arg):
    return T
"""

# helper reading a module global; the entity class is created per build (as a user's `gen_entity(W)` would)
MODULES["glob"] = HEADER + """
W = 3

def helper():
    return W

def build(arg):
    global W
    W = arg

    class T(Entity):
        o = Port.output(Unsigned[8])

        def architecture(self):
            @std.concurrent
            def logic():
                self.o <<= helper()

    return T
"""

# the *same* entity class, elaborated in two environments: architecture() reads the module global
MODULES["env"] = HEADER + """
W = 3

class T(Entity):
    o = Port.output(Unsigned[8])

    def architecture(self):
        w = W

        @std.concurrent
        def logic():
            self.o <<= w

def build(arg):
    global W
    W = arg
    return T
"""

# one Signal visible under several Python names in one context (the emitted name must not depend on set order)
MODULES["alias"] = HEADER + """
class T(Entity):
    a = Port.input(Bit)
    o = Port.output(Bit)
    o2 = Port.output(Bit)
    v = Port.input(BitVector[4])
    w = Port.output(Bit)

    def architecture(self):
        alpha = Signal[Bit](False)
        beta = alpha
        gamma = alpha
        vec = Signal[BitVector[4]]()
        low = vec[0]
        zeta = vec

        @std.concurrent
        def logic():
            alpha.next = self.a
            self.o <<= beta
            self.o2 <<= gamma
            zeta.next = self.v
            self.w <<= low | vec[1]

def build(arg):
    return T
"""

# derived (two levels) and templated std.Record: field order / bit layout must not depend on set order
MODULES["record"] = HEADER + """
class W(int):
    pass
class Base(std.Record):
    a: Bit
    bb: BitVector[2]
class Derived(Base):
    c: Unsigned[3]
    dd: Bit
class Derived2(Derived):
    e: BitVector[2]
    ff: Bit
class Tmpl(std.Record[W]):
    x: BitVector[W]
    y: Bit
    zz: Unsigned[W]
class T(Entity):
    inp = Port.input(BitVector[10])
    o = Port.output(BitVector[10])
    p = Port.output(BitVector[7])
    q = Port.output(Bit)
    def architecture(self):
        s = Signal[Derived2]()
        t = Signal[Tmpl[3]]()
        @std.concurrent
        def logic():
            s.next = std.from_bits[Derived2](self.inp)
            self.o <<= std.to_bits(s)
            t.next = std.from_bits[Tmpl[3]](self.inp[6:0])
            self.p <<= std.to_bits(t)
            self.q <<= s.dd ^ t.y

def build(arg):
    return T
"""

# compiled with the additional_reserved_names= keyword of std.VhdlCompiler (must only affect this compilation)
MODULES["reserved"] = HEADER + """
COMPILE_KWARGS = {"additional_reserved_names": {"loc", "temp", "sig", "t", "rec", "cnt", "proc", "sync_flag_tx"}}

class T(Entity):
    clk = Port.input(Bit)
    a = Port.input(Bit)
    k = Port.output(Bit)
    p = Port.output(Bit, default=False)

    def architecture(self):
        loc = Signal[Bit](False, name="loc")
        cnt = Signal[Unsigned[2]](0, name="cnt")

        @std.sequential(std.Clock(self.clk))
        def proc():
            cnt.next = cnt + 1
            if self.a & cnt[0]:
                self.p ^= True
                loc.next = ~loc

        @std.concurrent
        def logic():
            self.k <<= loc | (self.a & self.p)

def build(arg):
    return T
"""

# ONE entity class whose architecture() adds dynamic ports (std.add_entity_port); three behaviours selected
# by the build argument: "a" adds port tx, "b" adds port rx (another design on the same class), "fail" adds tx
# and then raises.  Ports added by one build must not survive into the next one.
MODULES["dyn"] = HEADER + """
MODE = "a"

class T(Entity):
    clk = Port.input(Bit)
    d = Port.input(Bit)

    def architecture(self):
        if MODE == "b":
            rx = std.add_entity_port(self, Port.input(Bit, name="rx"))
            q = std.add_entity_port(self, Port.output(Bit, name="q"))

            @std.concurrent
            def logic():
                q.next = rx & self.d
        else:
            tx = std.add_entity_port(self, Port.output(Bit, name="tx"))
            if MODE == "fail":
                raise ValueError("user error after a dynamic port was added")

            @std.sequential(std.Clock(self.clk))
            def proc():
                tx.next = self.d

def build(arg):
    global MODE
    MODE = arg
    return T
"""

# a module-level attributes dict passed together with comment= (must not be modified by a compilation)
MODULES["attrs"] = HEADER + """
ATTRS = {"zzz_user": 1}
ATTRS2 = {"zzz_user": 2}

class T(Entity):
    clk = Port.input(Bit)
    a = Port.input(Bit)
    o = Port.output(Bit)
    p = Port.output(Bit, default=False)

    def architecture(self):
        @std.concurrent(comment="combinational part", attributes=ATTRS)
        def logic():
            self.o <<= ~self.a

        @std.sequential(std.Clock(self.clk), comment="registered part", attributes=ATTRS2)
        def proc():
            self.p <<= self.a

def build(arg):
    return T
"""

# sub-entities living in different VHDL libraries (attributes={"path": ...}), one of them extern
MODULES["libpath"] = HEADER + """
class LeafA(Entity, attributes={"path": "liba"}):
    a = Port.input(Bit)
    r = Port.output(Bit)

    def architecture(self):
        @std.concurrent
        def logic():
            self.r <<= ~self.a

class LeafB(Entity, attributes={"path": "zlib"}):
    a = Port.input(Bit)
    r = Port.output(Bit)

    def architecture(self):
        @std.concurrent
        def logic():
            self.r <<= self.a

class LeafC(Entity, attributes={"path": "mlib"}):
    a = Port.input(Bit)
    r = Port.output(Bit)

    def architecture(self):
        @std.concurrent
        def logic():
            self.r <<= self.a

class Ext(Entity, extern=True, attributes={"path": "extlib"}):
    a = Port.input(Bit)
    r = Port.output(Bit)

class T(Entity):
    a = Port.input(Bit)
    r0 = Port.output(Bit)
    r1 = Port.output(Bit)
    r2 = Port.output(Bit)
    r3 = Port.output(Bit)

    def architecture(self):
        LeafB(a=self.a, r=self.r1)
        LeafA(a=self.a, r=self.r0)
        Ext(a=self.a, r=self.r3)
        LeafC(a=self.a, r=self.r2)

def build(arg):
    return T
"""

# process-wide type caches (_SubTypes of BitVector/Unsigned/Signed/Array, template cache): vector types of widths
# no other letter uses (5, 7, 9, 11, 13) are created for the first time INSIDE the compilation, ascending spelling
# in one letter, descending spelling (plain integer width and N-1:0) in the other
MODULES["types_asc"] = HEADER + "from cohdl import Array\n" + """
class T(Entity):
    inp = Port.input(BitVector[32])
    o = Port.output(Bit)
    def architecture(self):
        a = Signal[BitVector[0:4]](name="a")
        b = Signal[Unsigned[0:6]](name="b")
        asc_types = [Signed[0:10], Unsigned[0:10], BitVector[0:6], Signed[0:4], Signed[0:6], Unsigned[0:4], BitVector[0:8], Unsigned[0:8]]
        wsum = sum(t.width for t in asc_types)
        arr = Signal[Array[BitVector[0:12], 3]](name="arr")
        @std.concurrent
        def logic():
            a.next = self.inp[4:0]
            b.next = self.inp[6:0].unsigned
            arr[0] <<= self.inp[12:0]
            self.o <<= a[0] ^ b[1] ^ arr[0][3] ^ self.inp[wsum % 32]

def build(arg):
    return T
"""

MODULES["types_desc"] = HEADER + "from cohdl import Array\n" + """
class W(int): pass
class Tm(std.Record[W]):
    x: BitVector[W]
    y: Unsigned[W]
class T(Entity):
    inp = Port.input(BitVector[32])
    o = Port.output(Bit)
    def architecture(self):
        a = Signal[BitVector[5]](name="a")
        a2 = Signal[BitVector[4:0]](name="a2")
        b = Signal[Unsigned[7]](name="b")
        c = Signal[Signed[11]](name="c")
        arr = Signal[Array[BitVector[13], 3]](name="arr")
        @std.concurrent
        def logic():
            a.next = self.inp[4:0]
            a2.next = a
            b.next = self.inp[6:0].unsigned + 1
            c.next = self.inp[10:0].signed
            arr[1] <<= self.inp[12:0]
            t = std.from_bits[Tm[9]](self.inp[17:0])
            self.o <<= a2[0] ^ b[1] ^ c[2] ^ arr[1][3] ^ t.x[8] ^ t.y[0]

def build(arg):
    return T
"""

# std.OpenEntity / std.ConnectedEntity with several ports left open (signals for unconnected ports)
MODULES["connector"] = HEADER + """
class Inner(Entity):
    i0 = Port.input(Bit)
    i1 = Port.input(Bit)
    zeta = Port.output(Bit)
    alpha = Port.output(Bit)
    mid = Port.output(Bit)
    beta = Port.output(Bit)

    def architecture(self):
        @std.concurrent
        def logic():
            self.zeta <<= self.i0 & self.i1
            self.alpha <<= self.i0 | self.i1
            self.mid <<= self.i0 ^ self.i1
            self.beta <<= ~self.i0

class T(Entity):
    a = Port.input(Bit)
    b = Port.input(Bit)
    o0 = Port.output(Bit)
    o1 = Port.output(Bit)
    o2 = Port.output(Bit)

    def architecture(self):
        @std.concurrent
        def logic():
            op = std.OpenEntity[Inner](i0=self.a, i1=self.b)
            self.o0 <<= op.mid
            con = std.ConnectedEntity[Inner]()
            con.i0 <<= self.a
            con.i1 <<= self.b
            self.o1 <<= con.zeta ^ con.alpha
            self.o2 <<= con.beta & con.mid

def build(arg):
    return T
"""

# a module-level attributes dict given to std.SequentialContext, shared by two designs; one process is declared
# with @ctx(attributes={...}) (must not modify the shared dict), the others with plain @ctx
MODULES["seqattrs"] = HEADER + """
ATTRS = {"zzz_user": 1}

class A(Entity):
    clk = Port.input(Bit)
    a = Port.input(Bit)
    o = Port.output(Bit, default=False)
    p = Port.output(Bit, default=False)

    def architecture(self):
        ctx = std.SequentialContext(std.Clock(self.clk), attributes=ATTRS)

        @ctx(attributes={"comment": "process with its own attributes"})
        def proc_a():
            self.o <<= self.a

        @ctx
        def proc_b():
            self.p <<= ~self.a

class B(Entity):
    clk = Port.input(Bit)
    a = Port.input(Bit)
    q = Port.output(Bit, default=False)

    def architecture(self):
        ctx = std.SequentialContext(std.Clock(self.clk), attributes=ATTRS)

        @ctx
        def proc_c():
            self.q <<= self.a

def build(arg):
    return A if arg == "a" else B
"""

# two designs derived from one base class that declares the ports (output with a default); design A connects the
# inherited output to a sub-entity whose Signal is initialised from its input port
MODULES["base"] = HEADER + """
class Sub(Entity):
    a = Port.input(Bit)
    y = Port.output(Bit)

    def architecture(self):
        s = Signal[Bit](self.a, name="s_init")

        @std.concurrent
        def logic():
            self.y <<= self.a ^ s

class Base(Entity):
    a = Port.input(Bit)
    r = Port.output(Bit, default=True)

class A(Base):
    def architecture(self):
        Sub(a=self.a, y=self.r)

class B(Base):
    def architecture(self):
        @std.sequential
        def proc():
            if self.a:
                self.r <<= False

def build(arg):
    return A if arg == "a" else B
"""

# Signals initialised from the Python value of a port at elaboration time
MODULES["portinit"] = HEADER + """
class Sub(Entity):
    a = Port.input(Bit)
    y = Port.output(Bit)

    def architecture(self):
        s = Signal[Bit](self.a, name="s_init")

        @std.concurrent
        def logic():
            self.y <<= self.a ^ s

class T(Entity):
    a = Port.input(Bit)
    y = Port.output(Bit)
    q = Port.output(Unsigned[2])
    z = Port.output(Unsigned[2])

    def architecture(self):
        one = Signal[Bit](True, name="one")
        Sub(a=one, y=self.y)
        t = Signal[Unsigned[2]](self.q, name="t_init")

        @std.concurrent
        def logic():
            self.q <<= 2
            self.z <<= t

def build(arg):
    return T
"""

# std helper families that build lookup tables / could memoise per process; the twin letters differ in one parameter
MODULES["popcnt_set"] = HEADER + """
class T(Entity):
    v3 = Port.input(BitVector[3])
    v7 = Port.input(BitVector[7])
    pos = Port.input(Unsigned[2])
    c3 = Port.output(Unsigned[4])
    c7 = Port.output(Unsigned[4])
    hot = Port.output(BitVector[4])
    ish = Port.output(Bit)

    def architecture(self):
        @std.concurrent
        def logic():
            self.c3 <<= std.count_set_bits(self.v3)
            self.c7 <<= std.count_set_bits(self.v7)
            self.hot <<= std.one_hot(4, self.pos)
            self.ish <<= std.is_one_hot(self.v3)

def build(arg):
    return T
"""

MODULES["popcnt_clear"] = HEADER + """
class T(Entity):
    v3 = Port.input(BitVector[3])
    v7 = Port.input(BitVector[7])
    pos = Port.input(Unsigned[2])
    c3 = Port.output(Unsigned[4])
    c7 = Port.output(Unsigned[4])
    hot = Port.output(BitVector[6])
    ish = Port.output(Bit)

    def architecture(self):
        @std.concurrent
        def logic():
            self.c3 <<= std.count_clear_bits(self.v3)
            self.c7 <<= std.count_clear_bits(self.v7)
            self.hot <<= std.one_hot(6, self.pos)
            self.ish <<= std.is_one_hot(self.v3)

def build(arg):
    return T
"""

# std.Reset wrapped around a PORT, the opposite polarity requested at architecture level (inverter signal + block);
# the derived entity shares the port objects of its base class
MODULES["rstinv"] = HEADER + """
class Timer(Entity):
    clk = Port.input(Bit)
    rst_n = Port.input(Bit)
    rst_h = Port.input(Bit)
    enable = Port.input(Bit)
    busy = Port.output(Bit, default=False)
    idle = Port.output(Bit, default=False)
    count = Port.output(Unsigned[4], default=0)

    def architecture(self):
        clk = std.Clock(self.clk)
        reset = std.Reset(self.rst_n, active_low=True)
        clear = reset.active_high_signal()
        other = std.Reset(self.rst_h).active_low_signal()

        @std.sequential(clk, reset)
        def proc_count():
            if self.enable:
                self.count <<= self.count + 1

        @std.concurrent
        def logic_busy():
            self.busy <<= self.enable & ~clear
            self.idle <<= other & ~self.enable

class TimerWithFlag(Timer):
    flag = Port.output(Bit, default=False)

    def architecture(self):
        Timer.architecture(self)

        @std.concurrent
        def logic_flag():
            self.flag <<= self.count[3]

def build(arg):
    return TimerWithFlag if arg == "derived" else Timer
"""

# many local closures decorated with cohdl.expr_fn (garbage after the build) ...
MODULES["exprfn"] = HEADER + """
class T(Entity):
    clk = Port.input(Bit)
    req = Port.input(BitVector[8])
    mask = Port.input(BitVector[8])
    grant = Port.output(BitVector[8], default=cohdl.Null)

    def architecture(self):
        clk = std.Clock(self.clk)
        grants = [Signal[Bit](False, name=f"grant_{ch}") for ch in range(8)]

        for ch in range(8):

            def channel(ch=ch):
                @cohdl.expr_fn
                def requested():
                    return self.req[ch] & ~self.mask[ch]

                @cohdl.expr_fn
                def released():
                    return ~self.req[ch]

                @std.sequential(clk)
                async def proc():
                    await requested()
                    grants[ch] <<= True
                    await released()
                    grants[ch] <<= False

            channel()

        @std.concurrent
        def logic():
            self.grant <<= std.concat(*grants[::-1])

def build(arg):
    return T
"""

# ... and a design that awaits PLAIN local helpers with a side effect (executed once, only the result is awaited)
MODULES["plainawait"] = HEADER + """
class T(Entity):
    clk = Port.input(Bit)
    start = Port.input(Bit)
    ack = Port.input(Bit)
    ready = Port.input(Bit)
    req = Port.output(Bit, default=False)
    valid = Port.output(Bit, default=False)
    last = Port.output(Bit, default=False)
    done = Port.output(Bit, default=False)

    def architecture(self):
        clk = std.Clock(self.clk)

        def request():
            self.req ^= True
            return self.ack

        def send():
            self.valid ^= True
            return self.ready

        def finish():
            self.last ^= True
            return self.ack

        def again():
            self.req ^= True
            return self.ready

        @std.sequential(clk)
        async def proc():
            await self.start
            await request()
            await send()
            await finish()
            await again()
            self.done ^= True

def build(arg):
    return T
"""

# names that collide (case-insensitively, with reserved words, with each other across scopes)
MODULES["names"] = HEADER + """
class T(Entity):
    clk = Port.input(Bit)
    sig = Port.input(Bit)
    SIG_1 = Port.input(Bit)
    o = Port.output(Bit)
    o2 = Port.output(Bit, default=False)

    def architecture(self):
        a = Signal[Bit](name="sig")
        b = Signal[Bit](name="Sig")
        c = Signal[Bit](name="sig_1")
        d = Signal[Bit](name="entity")
        e = Signal[Bit](name="process")

        @std.concurrent
        def logic():
            a.next = self.sig
            b.next = a & self.SIG_1
            c.next = b
            d.next = c
            e.next = d
            self.o <<= e

        @std.sequential(std.Clock(self.clk))
        def logic():
            tmp = Variable[Bit](self.sig, name="logic")
            x = Variable[Bit](tmp, name="tmp")
            self.o2 <<= x ^ tmp

def build(arg):
    return T
"""

# hierarchy whose leaves contain coroutines, cohdl.on_block_exit handlers, cohdl.always
MODULES["exitcoro"] = HEADER + """
class Leaf(Entity):
    clk = Port.input(Bit)
    x = Port.input(Bit)
    r = Port.output(Bit, default=False)

    def architecture(self):
        @std.sequential(std.Clock(self.clk))
        async def proc():
            both = cohdl.always(self.x & self.r)
            await self.x
            self.r <<= ~self.r
            await self.x
            self.r <<= both

class T(Entity):
    clk = Port.input(Bit)
    x = Port.input(Bit)
    y = Port.input(Bit)
    r0 = Port.output(Bit)
    r1 = Port.output(Bit)
    m = Port.output(Bit)
    e = Port.output(Bit)

    def on_exit_b(self):
        @std.concurrent
        def logic():
            self.e <<= self.x | self.y

    def architecture(self):
        def on_exit_a():
            Leaf(clk=self.clk, x=self.y, r=self.r1)

        cohdl.on_block_exit(on_exit_a)
        cohdl.on_block_exit(self.on_exit_b)
        Leaf(clk=self.clk, x=self.x, r=self.r0)

        @std.concurrent
        def logic():
            self.m <<= self.x & self.y

def build(arg):
    return T
"""

# ----------------------------------------------------------------------------------------------
# rejected designs, one per failure stage
# ----------------------------------------------------------------------------------------------
MODULES["rej_arch"] = HEADER + """
class T(Entity):
    a = Port.input(Bit)
    o = Port.output(Bit)

    def architecture(self):
        @std.concurrent
        def logic():
            self.o <<= self.a

        raise ValueError("user error in architecture()")

def build(arg):
    return T
"""

MODULES["rej_block"] = HEADER + """
class T(Entity):
    a = Port.input(Bit)
    o = Port.output(Bit)

    def architecture(self):
        @std.block
        def outer():
            @std.concurrent
            def logic():
                self.o <<= self.a

            @std.block
            def inner():
                raise ValueError("user error inside nested std.block")

def build(arg):
    return T
"""

MODULES["rej_ctx"] = HEADER + """
class T(Entity):
    a = Port.input(Bit)
    b = Port.input(BitVector[3])
    o = Port.output(Bit)

    def architecture(self):
        @std.concurrent
        def logic():
            self.o <<= self.a
            self.o <<= self.b      # type error: BitVector[3] assigned to Bit

def build(arg):
    return T
"""

MODULES["rej_lowering"] = HEADER + """
class T(Entity):
    clk = Port.input(Bit)
    x = Port.input(Bit)
    o = Port.output(Bit)

    def architecture(self):
        @std.sequential(std.Clock(self.clk))
        async def proc():
            while True:
                if self.x:
                    continue
                await self.x

def build(arg):
    return T
"""

MODULES["rej_seqctx"] = HEADER + """
class T(Entity):
    clk = Port.input(Bit)
    a = Port.input(Bit)
    b = Port.input(BitVector[3])
    o = Port.output(Bit)

    def architecture(self):
        ctx = std.SequentialContext(std.Clock(self.clk))

        @ctx
        def proc():
            self.o <<= self.a
            self.o <<= self.b      # type error inside a std.SequentialContext body

def build(arg):
    return T
"""

MODULES["rej_prefix"] = HEADER + """
class T(Entity):
    clk = Port.input(Bit)
    a = Port.input(Bit)
    o = Port.output(Bit)

    def architecture(self):
        with std.prefix("pfx"):
            s = Signal[Bit](name=std.name("s"))
            with std.prefix("deep"):
                t = Signal[Bit](name=std.name("s"))
                raise ValueError("user error inside an active std.prefix")

def build(arg):
    return T
"""

# a prefix that is active inside a context body when the error happens
MODULES["rej_prefix_ctx"] = HEADER + """
class T(Entity):
    clk = Port.input(Bit)
    a = Port.input(Bit)
    b = Port.input(BitVector[3])
    o = Port.output(Bit)

    def architecture(self):
        @std.sequential(std.Clock(self.clk))
        def proc():
            with std.prefix("pfx"):
                s = Signal[Bit](name=std.name("s"))
                s <<= self.a
                self.o <<= self.b  # type error while the prefix scope is active

def build(arg):
    return T
"""

MODULES["rej_drivers"] = HEADER + """
class T(Entity):
    clk = Port.input(Bit)
    a = Port.input(Bit)
    o = Port.output(Bit)

    def architecture(self):
        s = Signal[Bit](name="s")

        @std.sequential(std.Clock(self.clk))
        def p1():
            s.next = self.a

        @std.sequential(std.Clock(self.clk))
        def p2():
            s.next = ~self.a

        @std.concurrent
        def logic():
            self.o <<= s

def build(arg):
    return T
"""

# front end succeeds (coroutine lowered), the VHDL back end rejects: inline code without a VHDL option
MODULES["rej_backend"] = HEADER + """
class T(Entity):
    clk = Port.input(Bit)
    a = Port.input(Bit)
    r = Port.output(Bit)

    def architecture(self):
        @std.sequential(std.Clock(self.clk))
        async def proc():
            await self.a
            self.r <<= self.a
            f"{cohdl._InlineCode:{self.r} <= {self.a!r};}"

def build(arg):
    return T
"""

MODULES["rej_sub"] = HEADER + """
class Leaf(Entity):
    a = Port.input(Bit)
    b = Port.input(BitVector[2])
    r = Port.output(Bit)

    def architecture(self):
        @std.concurrent
        def logic():
            self.r <<= self.a
            self.r <<= self.b      # type error in the sub-entity

class Good(Entity):
    a = Port.input(Bit)
    r = Port.output(Bit)

    def architecture(self):
        @std.concurrent
        def logic():
            self.r <<= ~self.a

class T(Entity):
    a = Port.input(Bit)
    b = Port.input(BitVector[2])
    r = Port.output(Bit)
    g = Port.output(Bit)

    def architecture(self):
        Good(a=self.a, r=self.g)
        Leaf(a=self.a, b=self.b, r=self.r)

def build(arg):
    return T
"""

MODULES["rej_inline"] = HEADER + """
class Leaf(Entity):
    a = Port.input(Bit)
    b = Port.input(BitVector[2])
    r = Port.output(Bit)

    def architecture(self):
        @std.concurrent
        def logic():
            self.r <<= self.a
            self.r <<= self.b      # type error in the inline entity

class Good(Entity):
    a = Port.input(Bit)
    r = Port.output(Bit)

    def architecture(self):
        @std.concurrent
        def logic():
            self.r <<= ~self.a

class T(Entity):
    a = Port.input(Bit)
    b = Port.input(BitVector[2])
    r = Port.output(Bit)
    g = Port.output(Bit)

    def architecture(self):
        @std.concurrent
        def logic():
            Good(a=self.a, r=self.g)
            Leaf(a=self.a, b=self.b, r=self.r)

def build(arg):
    return T
"""

# LETTERS: name -> (module key, build arg, expectation, description)
LETTERS: dict[str, tuple] = {
    "comb": ("comb", None, "accept", "combinational, Bit/BitVector/Unsigned"),
    "coro": ("coro", None, "accept", "coroutines incl. sub-coroutine, while/continue, sync+async reset"),
    "hier": ("hier", None, "accept", "two-level hierarchy, template Leaf/Mid instantiated repeatedly"),
    "inline": ("inline", None, "accept", "entities instantiated inside a concurrent context (inline entity)"),
    "prefix": ("prefix", None, "accept", "std.prefix (nested, repeated) + std.ToggleSignal + std.name"),
    "syncflag": ("syncflag", None, "accept", "std.SyncFlag (plain and delayed) across two contexts + concurrent observer"),
    "pushed": ("pushed", None, "accept", "pushed signals (^= and .push)"),
    "glob3": ("glob", 3, "accept", "module-level helper reading module global W, W=3"),
    "glob5": ("glob", 5, "accept", "same module, W=5"),
    "env3": ("env", 3, "accept", "one module-level entity class whose architecture() reads module global W, W=3"),
    "env5": ("env", 5, "accept", "same class object, W=5"),
    "alias": ("alias", None, "accept", "one Signal (and a sub-reference of it) bound to several Python names used in one context"),
    "record": ("record", None, "accept", "derived (2 levels) and templated std.Record, from_bits/to_bits layout"),
    "reserved": ("reserved", None, "accept", "compiled with std.VhdlCompiler.to_string(..., additional_reserved_names={...})"),
    "dyn_a": ("dyn", "a", "accept", "entity class adding dynamic ports in architecture() (std.add_entity_port), variant a"),
    "dyn_b": ("dyn", "b", "accept", "same class object, variant b adds other dynamic ports"),
    "attrs": ("attrs", None, "accept", "module-level attributes dicts passed together with comment= to std.concurrent/std.sequential"),
    "libpath": ("libpath", None, "accept", "sub-entities with different attributes={'path': lib}, one extern: library clauses"),
    "types_asc": ("types_asc", None, "accept", "creates ascending vector types (BitVector[0:4], Unsigned[0:6], Signed[0:10], Array of [0:12]) inside the compilation"),
    "types_desc": ("types_desc", None, "accept", "creates the descending types of the same widths (BitVector[5], [4:0], Unsigned[7], Signed[11], Array, Record template arg 9) inside the compilation"),
    "connector": ("connector", None, "accept", "std.OpenEntity / std.ConnectedEntity with 4-6 ports left open"),
    "seqattrs_a": ("seqattrs", "a", "accept", "module-level attributes dict given to std.SequentialContext, one process @ctx(attributes={...})"),
    "seqattrs_b": ("seqattrs", "b", "accept", "second design sharing the same module-level attributes dict"),
    "base_a": ("base", "a", "accept", "derived from a shared base class declaring the ports; connects the inherited default=True output to a sub-entity"),
    "base_b": ("base", "b", "accept", "other design derived from the same base class"),
    "portinit": ("portinit", None, "accept", "Signals initialised from a port's Python value (sub-entity input, assigned output)"),
    "popcnt_set": ("popcnt_set", None, "accept", "std.count_set_bits on widths 3 and 7, std.one_hot(4), std.is_one_hot"),
    "popcnt_clear": ("popcnt_clear", None, "accept", "std.count_clear_bits on the same widths, std.one_hot(6), std.is_one_hot"),
    "rstinv": ("rstinv", None, "accept", "std.Reset around ports, opposite polarity requested at architecture level"),
    "rstinv_d": ("rstinv", "derived", "accept", "derived entity sharing the port objects of rstinv's class"),
    "exprfn": ("exprfn", None, "accept", "16 local closures decorated with cohdl.expr_fn, awaited"),
    "plainawait": ("plainawait", None, "accept", "coroutine awaiting four plain local helpers with side effects"),
    "names": ("names", None, "accept", "colliding / reserved / case-different names"),
    "exitcoro": ("exitcoro", None, "accept", "sub-entities with coroutines + cohdl.always, cohdl.on_block_exit handlers"),
    "rej_dyn": ("dyn", "fail", "reject", "same class as dyn_a/dyn_b: adds a dynamic port, then architecture() raises"),
    "rej_arch": ("rej_arch", None, "reject", "exception raised in architecture()"),
    "rej_block": ("rej_block", None, "reject", "exception inside a nested std.block (std.block itself raises TypeError in this version)"),
    "rej_ctx": ("rej_ctx", None, "reject", "type error in a plain concurrent context body"),
    "rej_lowering": ("rej_lowering", None, "reject", "rejected during state-machine lowering (continue without await)"),
    "rej_seqctx": ("rej_seqctx", None, "reject", "type error inside a std.SequentialContext body"),
    "rej_prefix": ("rej_prefix", None, "reject", "exception inside an active std.prefix in architecture()"),
    "rej_prefix_ctx": ("rej_prefix_ctx", None, "reject", "type error inside an active std.prefix in a context body"),
    "rej_drivers": ("rej_drivers", None, "reject", "multiple-driver check"),
    "rej_backend": ("rej_backend", None, "reject", "front end ok, VHDL back end rejects (inline code without vhdl option) in a coroutine design"),
    "rej_sub": ("rej_sub", None, "reject", "type error in a sub-entity"),
    "rej_inline": ("rej_inline", None, "reject", "type error in an inline entity"),
}


def write_modules(directory: str):
    """Write every alphabet module as <directory>/c11_<key>.py (inspect.getsource needs real files)."""
    import os

    os.makedirs(directory, exist_ok=True)
    for key, src in MODULES.items():
        with open(os.path.join(directory, f"c11_{key}.py"), "w") as f:
            f.write(src)

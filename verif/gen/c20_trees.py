"""C20: bounded-exhaustive family of nested register-map layouts (address decode + per-instance notifications).

A tree is a chain   root(AddrMap) -> [RegFile -> [RegFile -> [RegFile ->]]] leaf .  At every level the member may be
instantiated TWICE (flag d: the same specialised class at `off` and directly behind it - repeated types) and may be
followed by a sentinel MemWord (flag s: detects objects that claim addresses past their end / sit at a wrong address).

    leaf kinds   W    reg32.MemWord                                                1 word
                 G    reg32.Register{MemField[15:0], MemField[31:16]}               1 word
                 N    reg32.Register{MemField[31:0], PushOnNotify.Write, PushOnNotify.Read}   1 word, both pulses on ports
                 R    reg32.AddrRange window, 3 words (range-compare decode); handler: read = tag | relative address,
                      write records the relative address and the strobed merge of the data
                 A<e><step>  reg32.Array[E, off : off+2*step : step]  two elements, step in {4, 8, 12, 16}
                      e = w: E = MemWord,  n: E = the N register,  f: E = RegFile{N @0, MemWord @4} (2 words, step >= 8)
    offsets      root level {0, 4, 8, 16}, inner levels {0, 4, 8}

Code of a tree (also its identity in finding keys): levels joined by '.', each level `<kind>@<offset><flags>`, e.g.
    "F@16s.F@4sd.An8@8s"   RegFile at 0x10 (+sentinel) containing TWO instances of a RegFile at +4 / +4+size (+sentinel),
                           each containing an Array of two N registers at +8, +16 (+sentinel)

The documented absolute address of every register is computed here, independently of cohdl, as the sum of the offsets
on the path from the root (reg.pyi: offsets are relative to the parent; array element k at start + k*step).  Address
width 8 (64 words): every word address that is not listed is unmapped (including the gaps of sparse arrays).
"""
from __future__ import annotations

import itertools
import re

from .c20_layouts import HEADER

ROOT_OFFSETS = (0, 4, 8, 16)
INNER_OFFSETS = (0, 4, 8)
ADDR_WIDTH = 8
READ_TAG = 0xC0DE0000
SIMPLE = ("W", "G", "N", "R")
ARRAYS = tuple(f"A{e}{st}" for e, steps in (("w", (4, 8, 12)), ("n", (4, 8, 12))) for st in steps)
# arrays of register files (A f <step>) can be generated but are not part of the families: cohdl rejects them
# (Array._impl_flatten does not descend into RegFile elements) - a rejection, not a violation
FILE_ARRAYS = ("Af8", "Af12", "Af16")

_PART = re.compile(r"^(F|W|G|N|R|A[wnf]\d+)@(\d+)(s?)(d?)$")


def leaf_size(kind):
    if kind in ("W", "G", "N"):
        return 4
    if kind == "R":
        return 12
    return 2 * int(kind[2:])


def chain(offs, leaf, s=None, d=None):
    """code of the chain with member offsets `offs` (root first), leaf kind, sentinel flags s and dup flags d per level"""
    n = len(offs)
    s = s or (1,) * n
    d = d or (0,) * n
    parts = []
    for i in range(n):
        k = leaf if i == n - 1 else "F"
        parts.append(f"{k}@{offs[i]}{'s' if s[i] else ''}{'d' if d[i] else ''}")
    return ".".join(parts)


def nesting_codes(depths, root_offsets=ROOT_OFFSETS, inner_offsets=INNER_OFFSETS, kinds=("W", "G", "R", "Aw4"), sentinels="all"):
    out = []
    for depth in depths:
        for offs in itertools.product(root_offsets, *([inner_offsets] * (depth - 1))):
            for kind in kinds:
                if sentinels == "all":
                    flagsets = [(1,) * depth]
                else:
                    flagsets = [(1,) + f for f in itertools.product((0, 1), repeat=depth - 1)]
                for fl in flagsets:
                    out.append(chain(offs, kind, s=fl))
    return out


def array_codes(depths, root_offsets, inner_offsets):
    """sparse / dense arrays of words, notifying registers and register files"""
    out = []
    for depth in depths:
        for offs in itertools.product(root_offsets, *([inner_offsets] * (depth - 1))):
            for kind in ARRAYS:
                out.append(chain(offs, kind))
    return out


def repeat_codes(depths, root_offsets, inner_offsets, kinds=("N", "An8", "An4", "W")):
    """the same specialised class instantiated twice at one level of the chain"""
    out = []
    for depth in depths:
        for offs in itertools.product(root_offsets, *([inner_offsets] * (depth - 1))):
            for kind in kinds:
                for lvl in range(depth):
                    d = tuple(1 if i == lvl else 0 for i in range(depth))
                    out.append(chain(offs, kind, d=d))
    return out


def quick_codes():
    """complete strata:
    nesting  every chain of depth <= 3 over {W,G,R,Aw4} with all offsets, depth 4 with offsets {0,8} / {0,4}
    arrays   every array kind (elements w/n, steps 4/8/12) at depth 1 (all root offsets) and depth 2 ({0,8} x {0,4,8})
    repeats  one duplicated level, depth 2 and 3, offsets {0,8} / {0,4}, leaf kinds {N, An8, An4, W}"""
    out = nesting_codes((1, 2, 3)) + nesting_codes((4,), (0, 8), (0, 4))
    out += array_codes((1,), ROOT_OFFSETS, ()) + array_codes((2,), (0, 8), INNER_OFFSETS)
    out += repeat_codes((2, 3), (0, 8), (0, 4))
    return _valid(out)


def thorough_codes():
    out = nesting_codes((1, 2, 3), sentinels="any") + nesting_codes((4,))
    out += array_codes((1, 2), ROOT_OFFSETS, INNER_OFFSETS) + array_codes((3,), (0, 8), (0, 4))
    out += repeat_codes((1, 2, 3), ROOT_OFFSETS, INNER_OFFSETS) + repeat_codes((4,), (0, 8), (0, 4), kinds=("N", "An8"))
    return _valid(out)


def _valid(codes):
    seen = set()
    out = []
    for c in codes:
        if c in seen:
            continue
        seen.add(c)
        if extent(c) <= (1 << ADDR_WIDTH):
            out.append(c)
    return out


def parse(code):
    lv = []
    for part in code.split("."):
        m = _PART.match(part)
        if not m:
            raise ValueError(f"bad tree code part {part!r}")
        lv.append((m.group(1), int(m.group(2)), bool(m.group(3)), bool(m.group(4))))
    return lv


def _sizes(lv):
    """member_size[i]: size of ONE instance of the member of level i; cont_size[i]: size of container i (i>=1)"""
    depth = len(lv)
    member_size = [0] * depth
    cont_size = [0] * (depth + 1)
    member_size[depth - 1] = leaf_size(lv[-1][0])
    for i in range(depth - 1, -1, -1):
        kind, off, s, d = lv[i]
        cont_size[i] = off + member_size[i] * (2 if d else 1) + (4 if s else 0)
        if i > 0:
            member_size[i - 1] = cont_size[i]
    return member_size, cont_size


def extent(code):
    return _sizes(parse(code))[1][0]


def build(code):
    """-> layout dict (same format as c20_layouts) for the tree `code`"""
    lv = parse(code)
    depth = len(lv)
    leaf_kind = lv[-1][0]
    member_size, cont_size = _sizes(lv)
    ports = []  # (name, type text)
    hook = []  # concurrent assignments in Map._impl_concurrent_
    cfg_lines = []
    regs = []
    classes = []

    def word_reg(name, addr, port):
        return {"name": name, "addr": addr, "cls": "MemWord", "notify": [],
                "fields": [{"name": "raw", "hi": 31, "lo": 0, "kind": "mem", "port": port, "default": 0}]}

    def add_word(pid, path, addr):
        ports.append((f"o_{pid}", "BitVector[32]"))
        hook.append(f"self._e.o_{pid} <<= {path}.raw")
        regs.append(word_reg(pid, addr, f"o_{pid}"))

    def add_notify_reg(pid, path, addr):
        ports.extend([(f"o_{pid}_d", "BitVector[32]"), (f"o_{pid}_wn", "Bit"), (f"o_{pid}_rn", "Bit")])
        hook.append(f"self._e.o_{pid}_d <<= {path}.data.val()")
        hook.append(f"self._e.o_{pid}_wn <<= bool({path}.wn)")
        hook.append(f"self._e.o_{pid}_rn <<= bool({path}.rn)")
        regs.append({"name": pid, "addr": addr, "cls": "Register", "notify": [("write", f"o_{pid}_wn"), ("read", f"o_{pid}_rn")],
                     "fields": [{"name": "data", "hi": 31, "lo": 0, "kind": "mem", "port": f"o_{pid}_d", "default": 0}]})

    def add_leaf(pid, path, addr):
        k = leaf_kind
        if k == "W":
            add_word(pid, path, addr)
        elif k == "G":
            ports.extend([(f"o_{pid}_lo", "BitVector[16]"), (f"o_{pid}_hi", "BitVector[16]")])
            hook.append(f"self._e.o_{pid}_lo <<= {path}.lo.val()")
            hook.append(f"self._e.o_{pid}_hi <<= {path}.hi.val()")
            regs.append({"name": pid, "addr": addr, "cls": "Register", "notify": [],
                         "fields": [{"name": "lo", "hi": 15, "lo": 0, "kind": "mem", "port": f"o_{pid}_lo", "default": 0},
                                    {"name": "hi", "hi": 31, "lo": 16, "kind": "mem", "port": f"o_{pid}_hi", "default": 0}]})
        elif k == "N":
            add_notify_reg(pid, path, addr)
        elif k == "R":
            ports.extend([(f"o_{pid}_la", f"Unsigned[{ADDR_WIDTH}]"), (f"o_{pid}_ld", "BitVector[32]")])
            cfg_lines.append(f"{path}._config_(e.o_{pid}_la, e.o_{pid}_ld)")
            regs.append({"name": pid, "addr": addr, "words": 3, "cls": "AddrRange", "notify": [], "read_tag": READ_TAG,
                         "fields": [{"name": "la", "hi": ADDR_WIDTH - 1, "lo": 0, "kind": "win_addr", "port": f"o_{pid}_la", "default": 0},
                                    {"name": "last", "hi": 31, "lo": 0, "kind": "win_data", "port": f"o_{pid}_ld", "default": 0}]})
        else:  # array: element k at addr + k*step
            e, step = k[1], int(k[2:])
            for n in range(2):
                ea = addr + n * step
                ep = f"{path}[{n}]"
                eid = f"{pid}_{n}"
                if e == "w":
                    add_word(eid, ep, ea)
                elif e == "n":
                    add_notify_reg(eid, ep, ea)
                else:
                    add_notify_reg(eid + "_r", ep + ".r", ea)
                    add_word(eid + "_w", ep + ".w", ea + 4)

    # ---- leaf classes
    if leaf_kind == "G":
        classes.append('''
class Rg(reg32.Register):
    lo: reg32.MemField[15:0, Null]
    hi: reg32.MemField[31:16, Null]
''')
    if leaf_kind == "N" or leaf_kind[:2] in ("An", "Af"):
        classes.append('''
class Rn(reg32.Register):
    data: reg32.MemField[31:0, Null]
    wn: reg32.PushOnNotify.Write
    rn: reg32.PushOnNotify.Read
''')
    if leaf_kind[:2] == "Af":
        classes.append('''
class Fe(reg32.RegFile, word_count=2):
    r: Rn[0x0]
    w: reg32.MemWord[0x4]
''')
    if leaf_kind == "R":
        classes.append(f'''
class Win(reg32.AddrRange, word_count=3):
    def _config_(self, o_la, o_ld):
        self._o_la = o_la
        self._o_ld = o_ld
        self._last = Signal[BitVector[32]](Null)
        self._la = Signal[Unsigned[{ADDR_WIDTH}]](Null)

    def _on_read_relative_(self, addr):
        return BitVector[{32 - ADDR_WIDTH}]("{READ_TAG >> ADDR_WIDTH:0{32 - ADDR_WIDTH}b}") @ addr.bitvector

    def _on_write_relative_(self, addr, data, mask):
        self._la <<= addr
        self._last <<= mask.apply(self._last, data)

    def _impl_concurrent_(self):
        self._o_la <<= self._la
        self._o_ld <<= self._last
''')

    def leaf_type(off):
        k = leaf_kind
        if k == "W":
            return f"reg32.MemWord[0x{off:x}]"
        if k == "G":
            return f"Rg[0x{off:x}]"
        if k == "N":
            return f"Rn[0x{off:x}]"
        if k == "R":
            return f"Win[0x{off:x}]"
        e, step = k[1], int(k[2:])
        et = {"w": "reg32.MemWord", "n": "Rn", "f": "Fe"}[e]
        return f"reg32.Array[{et}, 0x{off:x}:0x{off + 2 * step:x}:{step}]"

    # ---- container classes, innermost first
    for i in range(depth - 1, -1, -1):
        kind, off, s, d = lv[i]
        body = []
        for j in range(2 if d else 1):
            o = off + j * member_size[i]
            nm = f"m{i}" + ("b" if j else "")
            body.append(f"    {nm}: " + (leaf_type(o) if i == depth - 1 else f"F{i + 1}[0x{o:x}]"))
        if s:
            body.append(f"    s{i}: reg32.MemWord[0x{off + member_size[i] * (2 if d else 1):x}]")
        if i == 0:
            classes.append("\nclass Map(reg32.AddrMap):\n" + "\n".join(body) + "\n@@MAPBODY@@")
        else:
            classes.append(f"\nclass F{i}(reg32.RegFile, word_count={cont_size[i] // 4}):\n" + "\n".join(body) + "\n")

    # ---- instances: absolute address = sum of the offsets along the path
    def walk(i, path, pid, base):
        kind, off, s, d = lv[i]
        for j in range(2 if d else 1):
            nm = f"m{i}" + ("b" if j else "")
            a = base + off + j * member_size[i]
            p2, id2 = f"{path}.{nm}", (f"{pid}_{nm}" if pid else nm)
            if i == depth - 1:
                add_leaf(id2, p2, a)
            else:
                walk(i + 1, p2, id2, a)
        if s:
            sid = f"{pid}_s{i}" if pid else f"s{i}"
            add_word(sid, f"{path}.s{i}", base + off + member_size[i] * (2 if d else 1))

    walk(0, "self", "", 0)

    mapbody = "\n    def _config_(self, e):\n        self._e = e\n" + "".join(f"        {l.replace('self.', 'self.', 1)}\n" for l in cfg_lines)
    mapbody += "\n    def _impl_concurrent_(self):\n" + "".join(f"        {l}\n" for l in hook)
    ent = f"\nclass T(axi.addr_map_entity(addr_width={ADDR_WIDTH})):\n"
    ent += "".join(f"    {n} = Port.output({t})\n" for n, t in ports)
    ent += "\n    def architecture(self):\n        self.interface_connection().connect_addr_map(Map(self))\n"
    source = (HEADER + "\n".join(classes) + "\n" + ent).replace("@@MAPBODY@@", mapbody)
    regs.sort(key=lambda r: r["addr"])
    mapped = [r["addr"] + 4 * w for r in regs for w in range(r.get("words", 1))]
    assert len(mapped) == len(set(mapped)), f"generator error: overlapping registers in {code}"
    assert max(mapped) < (1 << ADDR_WIDTH), f"generator error: {code} exceeds the window"
    window = list(range(0, 1 << ADDR_WIDTH, 4))
    return {"name": "tree/" + code, "source": source, "regs": regs, "hw": [],
            "unmapped": [a for a in window if a not in set(mapped)], "window": window, "tree": code}


# ----------------------------------------------------------------------------------------------------------
# sibling specialisations that differ in exactly ONE generic parameter, in both creation orders
# (the std.Template specialisation cache must keep them apart)
# ----------------------------------------------------------------------------------------------------------
PAIR_ADDR_WIDTH = 9
_ARR_BASE = ("w", 0, 16, 4)
_ARR_ALTS = (("w", 0, 16, 8), ("w", 0, 16, 16), ("n", 0, 16, 4), ("w", 4, 16, 4), ("w", 0, 8, 4))


def pair_codes():
    """every pair gets its own address range (start/end shifted by 4 per pair, from 0x20 on - no other generated layout
    uses these ranges), so the process-wide specialisation cache cannot carry a class from one pair (or tree) to another"""
    raw = []
    for alt in _ARR_ALTS:
        raw += [(_ARR_BASE, alt), (alt, _ARR_BASE)]
    raw += [(_ARR_ALTS[0], _ARR_ALTS[1]), (_ARR_ALTS[1], _ARR_ALTS[0])]
    out = []
    for i, (x, y) in enumerate(raw):
        sh = 0x20 + 4 * i
        fmt = lambda t: f"arr.{t[0]}.{t[1] + sh}.{t[2] + sh}.{t[3]}"
        out.append(f"{fmt(x)}|{fmt(y)}")
    out += ["mem.0.8|mem.0.12", "mem.0.12|mem.0.8"]
    for a, b in (("fld.7.0.Null", "fld.7.0.Full"), ("fld.7.0.Null", "fld.15.0.Null"), ("fld.11.4.Null", "fld.7.4.Null")):
        out += [f"{a}|{b}", f"{b}|{a}"]
    return out


def build_pair(code):
    """two RegFile types Fa (at 0x0) and Fb (at 0x100), each holding one specialisation; a sentinel behind each"""
    specs = code.split("|")
    ports, hook, cfg_lines, regs, classes = [], [], [], [], []
    need_rn = False
    bases = (0x0, 0x100)

    def word_reg(name, addr, port):
        return {"name": name, "addr": addr, "cls": "MemWord", "notify": [],
                "fields": [{"name": "raw", "hi": 31, "lo": 0, "kind": "mem", "port": port, "default": 0}]}

    for idx, spec in enumerate(specs):
        tag = "ab"[idx]
        base = bases[idx]
        f = spec.split(".")
        if f[0] == "arr":
            e, a, b, st = f[1], int(f[2]), int(f[3]), int(f[4])
            et = "reg32.MemWord" if e == "w" else "Rn"
            need_rn |= e == "n"
            member = f"    x: reg32.Array[{et}, 0x{a:x}:0x{b:x}:{st}]"
            size = b
            for k, off in enumerate(range(0, b - a, st)):  # element k at start + k*step
                addr = base + a + off
                pid = f"{tag}{k}"
                if e == "w":
                    ports.append((f"o_{pid}", "BitVector[32]"))
                    hook.append(f"self._e.o_{pid} <<= self.f{tag}.x[{k}].raw")
                    regs.append(word_reg(pid, addr, f"o_{pid}"))
                else:
                    ports.extend([(f"o_{pid}_d", "BitVector[32]"), (f"o_{pid}_wn", "Bit"), (f"o_{pid}_rn", "Bit")])
                    hook.append(f"self._e.o_{pid}_d <<= self.f{tag}.x[{k}].data.val()")
                    hook.append(f"self._e.o_{pid}_wn <<= bool(self.f{tag}.x[{k}].wn)")
                    hook.append(f"self._e.o_{pid}_rn <<= bool(self.f{tag}.x[{k}].rn)")
                    regs.append({"name": pid, "addr": addr, "cls": "Register",
                                 "notify": [("write", f"o_{pid}_wn"), ("read", f"o_{pid}_rn")],
                                 "fields": [{"name": "data", "hi": 31, "lo": 0, "kind": "mem", "port": f"o_{pid}_d", "default": 0}]})
        elif f[0] == "mem":
            a, b = int(f[1]), int(f[2])
            member = f"    x: reg32.Memory[0x{a:x}:0x{b:x}]"
            size = b
            cfg_lines.append(f"self.f{tag}.x._config_(initial=Null)")
            for k in range((b - a) // 4):
                regs.append({"name": f"{tag}[{k}]", "addr": base + a + 4 * k, "cls": "Memory", "notify": [],
                             "fields": [{"name": "w", "hi": 31, "lo": 0, "kind": "mem", "port": None, "default": 0}]})
        else:  # fld.<hi>.<lo>.<default>: a Register type whose only field is MemField[hi:lo, default]
            hi, lo, dflt = int(f[1]), int(f[2]), f[3]
            classes.append(f"\nclass R{tag}(reg32.Register):\n    v: reg32.MemField[{hi}:{lo}, {dflt}]\n")
            member = f"    x: R{tag}[0x0]"
            size = 4
            w = hi - lo + 1
            ports.append((f"o_{tag}", f"BitVector[{w}]"))
            hook.append(f"self._e.o_{tag} <<= self.f{tag}.x.v.val()")
            regs.append({"name": tag, "addr": base, "cls": "Register", "notify": [],
                         "fields": [{"name": "v", "hi": hi, "lo": lo, "kind": "mem", "port": f"o_{tag}",
                                     "default": (1 << w) - 1 if dflt == "Full" else 0}]})
        classes.append(f"\nclass F{tag}(reg32.RegFile, word_count={size // 4 + 1}):\n{member}\n    s: reg32.MemWord[0x{size:x}]\n")
        ports.append((f"o_s{tag}", "BitVector[32]"))
        hook.append(f"self._e.o_s{tag} <<= self.f{tag}.s.raw")
        regs.append(word_reg(f"s{tag}", base + size, f"o_s{tag}"))
    rn = '''
class Rn(reg32.Register):
    data: reg32.MemField[31:0, Null]
    wn: reg32.PushOnNotify.Write
    rn: reg32.PushOnNotify.Read
''' if need_rn else ""
    src = HEADER + "from cohdl import Full\n" + rn + "".join(classes)
    src += f"\n\nclass Map(reg32.AddrMap):\n    fa: Fa[0x{bases[0]:x}]\n    fb: Fb[0x{bases[1]:x}]\n"
    src += "\n    def _config_(self, e):\n        self._e = e\n" + "".join(f"        {l}\n" for l in cfg_lines)
    src += "\n    def _impl_concurrent_(self):\n" + "".join(f"        {l}\n" for l in hook)
    src += f"\n\nclass T(axi.addr_map_entity(addr_width={PAIR_ADDR_WIDTH})):\n"
    src += "".join(f"    {n} = Port.output({t})\n" for n, t in ports)
    src += "\n    def architecture(self):\n        self.interface_connection().connect_addr_map(Map(self))\n"
    regs.sort(key=lambda r: r["addr"])
    mapped = [r["addr"] for r in regs]
    assert len(mapped) == len(set(mapped)), f"generator error: overlapping registers in {code}"
    window = list(range(0, 1 << PAIR_ADDR_WIDTH, 4))
    return {"name": "pair/" + code, "source": src, "regs": regs, "hw": [],
            "unmapped": [a for a in window if a not in set(mapped)], "window": window}

"""C20: bounded-exhaustive family of nested register-map layouts (address decode through RegFile nesting).

A tree is   root(AddrMap) -> [File@o1 -> [File@o2 ->]] leaf@o3   with an optional sentinel MemWord directly behind the
member of every level (a sentinel detects an object that claims addresses past its end or that is placed at the wrong
absolute address because then it collides with / hides the sentinel).

    leaf kinds   W  reg32.MemWord                                  1 word
                 G  reg32.Register{MemField[15:0], MemField[31:16]} 1 word
                 A  reg32.Array[reg32.MemWord, o:o+8:4]             2 words
                 R  reg32.AddrRange window, 3 words (range-compare decode), handler: read = tag | relative address,
                    write records the relative address and the strobed merge of the data
    offsets      root level {0, 4, 8, 16}, inner levels {0, 4, 8}
    depth        1 (leaf in the root), 2 (one RegFile), 3 (RegFile inside RegFile), 4 (three nested RegFiles)

Code of a tree (also its identity in finding keys):  e.g.  "F16s.F4s.A8s"  = RegFile at 0x10 (+sentinel behind it in the
root) containing a RegFile at +4 (+sentinel) containing an Array at +8 (+sentinel); "W4s" = MemWord at 4 in the root.

The documented absolute address of every register is computed here, independently of cohdl, as the sum of the offsets
on the path from the root (reg.pyi: offsets are relative to the parent).  Address width 7 (32 words): every word address
that is not listed is unmapped.
"""
from __future__ import annotations

import itertools

from .c20_layouts import HEADER

LEAF_WORDS = {"W": 1, "G": 1, "A": 2, "R": 3}
ROOT_OFFSETS = (0, 4, 8, 16)
INNER_OFFSETS = (0, 4, 8)
ADDR_WIDTH = 7
READ_TAG = 0xC0DE0000 >> ADDR_WIDTH << ADDR_WIDTH  # low ADDR_WIDTH bits carry the relative address


def codes(depths=(1, 2, 3), root_offsets=ROOT_OFFSETS, inner_offsets=INNER_OFFSETS, sentinels="all", kinds="WGAR"):
    """sentinels: 'all' -> every level has its sentinel; 'any' -> every subset of inner-level sentinels"""
    out = []
    for depth in depths:
        files = depth - 1
        for offs in itertools.product(root_offsets, *([inner_offsets] * files)):
            for kind in kinds:
                if sentinels == "all":
                    flagsets = [(1,) * depth]
                else:
                    flagsets = [(1,) + f for f in itertools.product((0, 1), repeat=depth - 1)]
                for flags in flagsets:
                    parts = []
                    for lvl in range(depth):
                        k = kind if lvl == depth - 1 else "F"
                        parts.append(f"{k}{offs[lvl]}{'s' if flags[lvl] else ''}")
                    out.append(".".join(parts))
    return out


def quick_codes():
    """complete: every tree of depth <= 3 (root -> file -> file -> leaf) with all sentinels; depth 4 (three nested
    register files) with offsets {0, 8} at the root and {0, 4} at the inner levels"""
    return codes((1, 2, 3)) + codes((4,), root_offsets=(0, 8), inner_offsets=(0, 4))


def thorough_codes():
    """depth <= 3 with every subset of inner sentinels, depth 4 with the full offset alphabet"""
    return codes((1, 2, 3), sentinels="any") + codes((4,))


def parse(code):
    lv = []
    for part in code.split("."):
        kind = part[0]
        s = part.endswith("s")
        off = int(part[1:-1] if s else part[1:])
        lv.append((kind, off, s))
    return lv


def build(code):
    """-> layout dict (same format as c20_layouts) for the tree `code`"""
    lv = parse(code)
    depth = len(lv)
    leaf_kind, leaf_off, leaf_s = lv[-1]
    nested = depth > 1
    ports = []  # (name, type text)
    hook = []  # concurrent assignments in Map._impl_concurrent_
    cfg_lines = []
    regs = []
    classes = []

    # ---- sizes (bytes) bottom-up: size of level i member, and of the file containing it
    member_size = [0] * depth
    file_size = [0] * depth  # file_size[i] = size of the file whose member is level i (i >= 1)
    member_size[depth - 1] = 4 * LEAF_WORDS[leaf_kind]
    for i in range(depth - 1, 0, -1):
        kind, off, s = lv[i]
        file_size[i] = off + member_size[i] + (4 if s else 0)
        member_size[i - 1] = file_size[i]

    # ---- absolute addresses: sum of the offsets along the path
    base = [0] * depth  # absolute address of the container of level i
    for i in range(1, depth):
        base[i] = base[i - 1] + lv[i - 1][1]
    leaf_abs = base[depth - 1] + leaf_off

    # ---- python access path of the leaf inside Map
    path = "self" + "".join(f".f{i + 1}" for i in range(depth - 1))

    def word_reg(name, addr, cls, port):
        return {"name": name, "addr": addr, "cls": cls, "notify": [],
                "fields": [{"name": "raw", "hi": 31, "lo": 0, "kind": "mem", "port": port, "default": 0}]}

    # ---- leaf
    if leaf_kind == "W":
        leaf_type = "reg32.MemWord"
        ports.append(("o_leaf", "BitVector[32]"))
        hook.append(f"self._e.o_leaf <<= {path}.leaf.raw")
        regs.append(word_reg("leaf", leaf_abs, "MemWord", "o_leaf"))
    elif leaf_kind == "G":
        classes.append('''
class Rg(reg32.Register):
    lo: reg32.MemField[15:0, Null]
    hi: reg32.MemField[31:16, Null]
''')
        leaf_type = "Rg"
        ports += [("o_leaf_lo", "BitVector[16]"), ("o_leaf_hi", "BitVector[16]")]
        hook.append(f"self._e.o_leaf_lo <<= {path}.leaf.lo.val()")
        hook.append(f"self._e.o_leaf_hi <<= {path}.leaf.hi.val()")
        regs.append({"name": "leaf", "addr": leaf_abs, "cls": "Register", "notify": [],
                     "fields": [{"name": "lo", "hi": 15, "lo": 0, "kind": "mem", "port": "o_leaf_lo", "default": 0},
                                {"name": "hi", "hi": 31, "lo": 16, "kind": "mem", "port": "o_leaf_hi", "default": 0}]})
    elif leaf_kind == "A":
        leaf_type = None  # annotation written specially
        pn = "o_narr" if nested else "o_arr"
        for k in range(2):
            ports.append((f"{pn}{k}", "BitVector[32]"))
            hook.append(f"self._e.{pn}{k} <<= {path}.leaf[{k}].raw")
            regs.append(word_reg(f"leaf[{k}]", leaf_abs + 4 * k, "MemWord", f"{pn}{k}"))
    else:  # R
        classes.append(f'''
class Win(reg32.AddrRange, word_count=3):
    def _config_(self, e):
        self._e = e
        self._last = Signal[BitVector[32]](Null)
        self._la = Signal[Unsigned[{ADDR_WIDTH}]](Null)

    def _on_read_relative_(self, addr):
        return BitVector[{32 - ADDR_WIDTH}]("{READ_TAG >> ADDR_WIDTH:0{32 - ADDR_WIDTH}b}") @ addr.bitvector

    def _on_write_relative_(self, addr, data, mask):
        self._la <<= addr
        self._last <<= mask.apply(self._last, data)

    def _impl_concurrent_(self):
        self._e.o_win_addr <<= self._la
        self._e.o_win_data <<= self._last
''')
        leaf_type = "Win"
        ports += [("o_win_addr", f"Unsigned[{ADDR_WIDTH}]"), ("o_win_data", "BitVector[32]")]
        cfg_lines.append(f"{path}.leaf._config_(e)")
        regs.append({"name": "leaf", "addr": leaf_abs, "words": 3, "cls": "AddrRange", "notify": [], "read_tag": READ_TAG,
                     "fields": [{"name": "la", "hi": ADDR_WIDTH - 1, "lo": 0, "kind": "win_addr", "port": "o_win_addr", "default": 0},
                                {"name": "last", "hi": 31, "lo": 0, "kind": "win_data", "port": "o_win_data", "default": 0}]})

    def leaf_annotation():
        if leaf_kind == "A":
            return f"    leaf: reg32.Array[reg32.MemWord, 0x{leaf_off:x}:0x{leaf_off + 8:x}:4]"
        return f"    leaf: {leaf_type}[0x{leaf_off:x}]"

    # ---- containers, innermost first
    for i in range(depth - 1, -1, -1):
        kind, off, s = lv[i]
        body = []
        if i == depth - 1:
            body.append(leaf_annotation())
        else:
            body.append(f"    f{i + 1}: F{i + 1}[0x{off:x}]")
        if s:
            s_off = off + member_size[i]
            body.append(f"    s{i}: reg32.MemWord[0x{s_off:x}]")
            spath = "self" + "".join(f".f{j + 1}" for j in range(i))
            ports.append((f"o_s{i}", "BitVector[32]"))
            hook.append(f"self._e.o_s{i} <<= {spath}.s{i}.raw")
            regs.append(word_reg(f"s{i}", base[i] + s_off, "MemWord", f"o_s{i}"))
        if i == 0:
            cls = "class Map(reg32.AddrMap):\n" + "\n".join(body) + "\n\n    def _config_(self, e):\n        self._e = e\n"
            cls += "".join(f"        {l}\n" for l in cfg_lines)
            cls += "\n    def _impl_concurrent_(self):\n" + "".join(f"        {l}\n" for l in hook)
        else:
            cls = f"class F{i}(reg32.RegFile, word_count={file_size[i] // 4}):\n" + "\n".join(body) + "\n"
        classes.append("\n" + cls)

    ent = f"\nclass T(axi.addr_map_entity(addr_width={ADDR_WIDTH})):\n"
    ent += "".join(f"    {n} = Port.output({t})\n" for n, t in ports)
    ent += "\n    def architecture(self):\n        self.interface_connection().connect_addr_map(Map(self))\n"
    source = HEADER + "\n".join(classes) + "\n" + ent
    regs.sort(key=lambda r: r["addr"])
    mapped = {r["addr"] + 4 * w for r in regs for w in range(r.get("words", 1))}
    window = list(range(0, 1 << ADDR_WIDTH, 4))
    return {"name": "tree/" + code, "source": source, "regs": regs, "hw": [],
            "unmapped": [a for a in window if a not in mapped], "window": window, "tree": code}

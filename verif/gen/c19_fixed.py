"""C19 generators / drivers: the bounded space of fixed point operations, how each operation is
executed at the Python level (constants) and how the compiled wrapper entities are written.

An *operation descriptor* is a plain tuple (JSON friendly):

  ("arith", op, kind, A, B)            op in add/sub/mul;  A, B = (left, right)
  ("resize", kind, A, B, rs, os)       rs in TRUNCATE/ROUND/None, os in WRAP/SATURATE/None (None = default args)
  ("eq", kind, A, B)                   xa == xb
  ("ctor_f", kind, A, B)               B-format object constructed from an A-format object (same kind)
  ("ctor_v", kind, A, vk, n)           A-format object constructed from Signed[n] (vk="S") / Unsigned[n] (vk="U")
  ("ctor_c", kind, A, form, num, den)  A-format object constructed from the constant num/den given as int / float
  ("eqc", kind, A, form, num, den)     xa == constant

Inputs of an operation: `a` = raw pattern of the A-format operand, `b` = raw pattern of the second
operand (B-format operand or the Signed/Unsigned source); unused ones are 0.
"""
from __future__ import annotations

from fractions import Fraction

from ..ref import c19_fixed as ref

KINDS = ("S", "U")
ROUNDS = (ref.TRUNCATE, ref.ROUND)
OVERFLOWS = (ref.WRAP, ref.SATURATE)


def formats(lo, hi, maxw):
    return [(l, r) for r in range(lo, hi + 1) for l in range(r, hi + 1) if l - r + 1 <= maxw]


def width(fmt):
    return fmt[0] - fmt[1] + 1


def kfmt(kind, fmt):
    return (kind, fmt[0], fmt[1])


def fmt_name(kind, fmt):
    return f"{kind}[{fmt[0]}:{fmt[1]}]"


def type_expr(kind, fmt):
    return f"std.{'SFixed' if kind == 'S' else 'UFixed'}[{fmt[0]}:{fmt[1]}]"


def const_values(kind, fmt):
    """constants tried for ctor_c / eqc: every integer from two below the format's minimum to two above
    its maximum (form int), and every multiple of half the resolution from two steps below the minimum to
    two steps above the maximum (form float; all exactly representable binary floats)."""
    lo, hi = ref.bounds(kfmt(kind, fmt))
    out = []
    i0 = ref.floor_frac(lo) - 2
    i1 = -ref.floor_frac(-hi) + 2
    for i in range(i0, i1 + 1):
        out.append(("int", i, 1))
    step = ref.pow2(fmt[1] - 1)
    k0 = ref.floor_frac(lo / step) - 4
    k1 = ref.floor_frac(hi / step) + 4
    for k in range(k0, k1 + 1):
        v = k * step
        out.append(("float", v.numerator, v.denominator))
    return out


def pair_ops(kind, A, B):
    ops = [("arith", op, kind, A, B) for op in ("add", "sub", "mul")]
    ops.append(("eq", kind, A, B))
    for rs in ROUNDS:
        for os_ in OVERFLOWS:
            ops.append(("resize", kind, A, B, rs, os_))
    ops.append(("resize", kind, A, B, None, None))
    ops.append(("ctor_f", kind, A, B))
    return ops


def single_ops(kind, A, maxn):
    ops = []
    for vk in KINDS:
        for n in range(1, maxn + 1):
            ops.append(("ctor_v", kind, A, vk, n))
    for form, num, den in const_values(kind, A):
        ops.append(("ctor_c", kind, A, form, num, den))
        ops.append(("eqc", kind, A, form, num, den))
    return ops


def op_key(op):
    t = op[0]
    if t == "arith":
        return f"{op[1]}/{fmt_name(op[2], op[3])},{fmt_name(op[2], op[4])}"
    if t == "resize":
        return (f"resize/{resize_relation(op[2], op[3])}/{fmt_name(op[1], op[2])}->[{op[3][0]}:{op[3][1]}]/"
                f"{op[4] or 'default'}/{op[5] or 'default'}")
    if t == "eq":
        return f"eq/{fmt_name(op[1], op[2])},{fmt_name(op[1], op[3])}"
    if t == "ctor_f":
        rel = "same-right" if op[3][1] == op[2][1] else ("finer" if op[3][1] < op[2][1] else "coarser")
        return f"ctor/{fmt_name(op[1], op[3])}/from-format/{rel}/{fmt_name(op[1], op[2])}"
    if t == "ctor_v":
        return f"ctor/{fmt_name(op[1], op[2])}/from/{'Signed' if op[3] == 'S' else 'Unsigned'}[{op[4]}]"
    if t == "ctor_c":
        return f"ctor/{fmt_name(op[1], op[2])}/from/{const_class(op)}/{op[3]}:{Fraction(op[4], op[5])}"
    if t == "eqc":
        return f"eqc/{fmt_name(op[1], op[2])}/{const_class(op)}/{op[3]}:{Fraction(op[4], op[5])}"
    if t == "arithc":
        _, o, kind, A, B, side, num, den = op
        c = Fraction(num, den)
        if side == "L":
            return f"{o}c/L/{fmt_name(kind, A)}={c},{fmt_name(kind, B)}"
        return f"{o}c/R/{fmt_name(kind, A)},{fmt_name(kind, B)}={c}"
    if t == "resize_s":
        # same case identity as the plain resize (so the listed findings of resize apply); the call shape and the
        # format of the second object are carried by the level part of the key, see shape_level()
        return op_key(plain(op)[0])
    raise ValueError(op)


def plain(op, a=0, b=0):
    """the plain operation (and operand values) a derived operation has to agree with:
    arithc  = arith / eq with one operand given as a constant;  resize_s = resize written in another call shape"""
    t = op[0]
    if t == "arithc":
        _, o, kind, A, B, side, num, den = op
        c = Fraction(num, den)
        p = ("eq", kind, A, B) if o == "eq" else ("arith", o, kind, A, B)
        if side == "L":
            return p, ref.encode(kfmt(kind, A), c), b
        return p, a, ref.encode(kfmt(kind, B), c)
    if t == "resize_s":
        _, shape, kind, A, B, T, rs, os_ = op
        return ("resize", kind, A, T, rs, os_), a, 0
    return op, a, b


def shape_level(level, op):
    """level part of the key of a resize_s operation, e.g. py@held~S[0:0]"""
    return f"{level}@{op[1]}~{fmt_name(op[2], op[4])}"


def format_constants(kind, fmt):
    """the constants used as compile-time operands: minimum, maximum, and -1 LSB (SFixed) / +1 LSB and 0 (UFixed)"""
    lo, hi = ref.bounds(kfmt(kind, fmt))
    step = ref.pow2(fmt[1])
    cs = [lo, hi, -step if kind == "S" else step]
    out = []
    for c in cs:
        if ref.representable(kfmt(kind, fmt), c) and c not in out:
            out.append(c)
    return out


def const_ops(kind, A, B):
    """every binary operator with a compile-time constant on the left (format A) resp. on the right (format B)"""
    ops = []
    for o in ("add", "sub", "mul", "eq"):
        if o == "eq" and A != B:
            continue  # comparison of different formats is rejected (see pair_ops / eq)
        for c in format_constants(kind, A):
            ops.append(("arithc", o, kind, A, B, "L", c.numerator, c.denominator))
        for c in format_constants(kind, B):
            ops.append(("arithc", o, kind, A, B, "R", c.numerator, c.denominator))
    return ops


SHAPES = ("held", "heldsub", "nestl", "nestr")


def shape_ops(kind, A, B, T):
    return [("resize_s", sh, kind, A, B, T, rs, os_) for sh in SHAPES for rs in ROUNDS for os_ in OVERFLOWS]


def shape_code(op, i="", xa="xa", xb="xb"):
    """(statements before, expression) of a resize written in call shape op[1]:
    held     qa = xa.resize; qb = xb.resize; qa(L, R, rs, os)        helper of xa obtained before xb.resize is accessed
    heldsub  same, called through the subscript form qa[L:R](rs, os)
    nestl    xa.resize(xb.resize(<own format of xb>).left() + k, R, rs, os)    another object's resize inside the arguments
    nestr    xa.resize(L, xb.resize(<own format of xb>).right() + k, rs, os)"""
    _, shape, kind, A, B, T, rs, os_ = op
    L, R = T
    st = f"RS.{rs}, OS.{os_}"
    if shape in ("held", "heldsub"):
        pre = [f"qa{i} = {xa}.resize", f"qb{i} = {xb}.resize"]
        return pre, (f"qa{i}({L}, {R}, {st})" if shape == "held" else f"qa{i}[{L}:{R}]({st})")
    if shape == "nestl":
        return [], f"{xa}.resize({xb}.resize({B[0]}, {B[1]}).left() + ({L - B[0]}), {R}, {st})"
    if shape == "nestr":
        return [], f"{xa}.resize({L}, {xb}.resize({B[0]}, {B[1]}).right() + ({R - B[1]}), {st})"
    raise ValueError(op)


def resize_relation(src, tgt):
    """how the target format lies relative to the source format (part of the key: the implementation
    under test selects its code path by exactly this relation, see the property's why_tests_cant)"""
    w = width(src)
    ov = src[0] - tgt[0]   # > 0: integer bits are dropped
    cut = tgt[1] - src[1]  # > 0: fraction bits are dropped
    if cut >= w:
        return "tgt-above-src"   # every source bit lies below the target's resolution
    if ov >= w:
        return "tgt-below-src"   # every source bit lies above the target's left bound
    left = "lowerL" if ov > 0 else ("sameL" if ov == 0 else "higherL")
    right = "coarserR" if cut > 0 else ("sameR" if cut == 0 else "finerR")
    return f"{left}-{right}-{'1bit' if width(tgt) == 1 else 'nbit'}"


def const_class(op):
    """exact: representable in the format; offgrid: inside the range but between two representable
    numbers; outside: beyond the range"""
    f = kfmt(op[1], op[2])
    c = Fraction(op[4], op[5])
    if ref.representable(f, c):
        return "exact"
    lo, hi = ref.bounds(f)
    return "offgrid" if lo <= c <= hi else "outside"


def op_inputs(op):
    """(width of a, width of b) — 0 = input unused"""
    t = op[0]
    if t == "arith":
        return width(op[3]), width(op[4])
    if t == "eq":
        return width(op[2]), width(op[3])
    if t in ("resize", "ctor_f"):
        return width(op[2]), 0
    if t == "ctor_v":
        return 0, op[4]
    if t == "ctor_c":
        return 0, 0
    if t == "eqc":
        return width(op[2]), 0
    if t == "arithc":
        return (0, width(op[4])) if op[5] == "L" else (width(op[3]), 0)
    if t == "resize_s":
        return width(op[3]), width(op[4])
    raise ValueError(op)


def to_op(x):
    """descriptor read back from JSON (lists -> tuples)"""
    return tuple(tuple(e) if isinstance(e, list) else e for e in x)


# ------------------------------------------------------------------------------------------------
# oracle per operation
# ------------------------------------------------------------------------------------------------
#
# expected(op, a, b, got) -> None if `got` is acceptable, else a text saying what was expected.
# `got` is ("fixed", kind, left, right, raw) or ("bool", value).
# must_accept(op, a, b): may an exception be tolerated for this input?

def const_of(op):
    return Fraction(op[4], op[5])


def must_accept(op, a=0, b=0):
    t = op[0]
    if t in ("arithc", "resize_s"):
        return must_accept(plain(op)[0])
    if t in ("arith", "resize"):
        return True  # "of any formats", "to any target format"
    if t == "eq":
        return op[2] == op[3]
    if t == "ctor_f":
        return ref.type_contains(kfmt(op[1], op[3]), kfmt(op[1], op[2]))
    if t == "ctor_v":
        return ref.type_contains(kfmt(op[1], op[2]), ref.vec_fmt(op[3], op[4]))
    if t in ("ctor_c", "eqc"):
        return ref.representable(kfmt(op[1], op[2]), const_of(op))
    raise ValueError(op)


def check_result(op, a, b, got):
    t = op[0]
    if t in ("arithc", "resize_s"):
        return check_result(*plain(op, a, b), got)
    if t == "arith":
        _, o, kind, A, B = op
        if got[0] != "fixed":
            return f"expected a fixed point result, got {got}"
        fres = got[1:4]
        if fres[0] != kind:
            return f"result kind {fres[0]} differs from operand kind {kind}"
        want = ref.expected_arith(o, kfmt(kind, A), a, kfmt(kind, B), b, fres)
        have = ref.value(fres, got[4])
        if have != want:
            return (f"{ref.value(kfmt(kind, A), a)} {o} {ref.value(kfmt(kind, B), b)}: exact result {want}, "
                    f"got {have} (raw {got[4]:#b} in {fres[0]}[{fres[1]}:{fres[2]}])")
        return None
    if t == "resize":
        _, kind, A, B, rs, os_ = op
        if got[0] != "fixed":
            return f"expected a fixed point result, got {got}"
        if got[1:4] != kfmt(kind, B):
            return f"result format {got[1]}[{got[2]}:{got[3]}] is not the requested {fmt_name(kind, B)}"
        want = ref.resize_raw(kfmt(kind, A), a, kfmt(kind, B), rs or ref.TRUNCATE, os_ or ref.WRAP)
        if got[4] != want:
            return (f"resize of {ref.value(kfmt(kind, A), a)} (raw {a:#b}): expected "
                    f"{ref.value(kfmt(kind, B), want)} (raw {want:#b}), got {ref.value(kfmt(kind, B), got[4])} (raw {got[4]:#b})")
        return None
    if t == "eq":
        _, kind, A, B = op
        if got[0] != "bool":
            return f"expected a boolean, got {got}"
        want = ref.value(kfmt(kind, A), a) == ref.value(kfmt(kind, B), b)
        if got[1] != want:
            return f"{ref.value(kfmt(kind, A), a)} == {ref.value(kfmt(kind, B), b)}: expected {want}, got {got[1]}"
        return None
    if t == "eqc":
        _, kind, A, form, num, den = op
        if got[0] != "bool":
            return f"expected a boolean, got {got}"
        want = ref.value(kfmt(kind, A), a) == const_of(op)
        if got[1] != want:
            return f"{ref.value(kfmt(kind, A), a)} == {form}({const_of(op)}): expected {want}, got {got[1]}"
        return None
    # constructors: the represented number is preserved whenever it is representable in the new format
    if t == "ctor_f":
        _, kind, A, B = op
        tgt, v = kfmt(kind, B), ref.value(kfmt(kind, A), a)
    elif t == "ctor_v":
        _, kind, A, vk, n = op
        tgt, v = kfmt(kind, A), ref.value(ref.vec_fmt(vk, n), b)
    elif t == "ctor_c":
        _, kind, A, form, num, den = op
        tgt, v = kfmt(kind, A), const_of(op)
    else:
        raise ValueError(op)
    if got[0] != "fixed":
        return f"expected a fixed point result, got {got}"
    if got[1:4] != tgt:
        return f"constructed object has format {got[1]}[{got[2]}:{got[3]}], not {tgt[0]}[{tgt[1]}:{tgt[2]}]"
    if not ref.representable(tgt, v):
        return None  # nothing promised
    have = ref.value(tgt, got[4])
    if have != v:
        return f"constructed from {v}: represents {have} (raw {got[4]:#b})"
    return None


# ------------------------------------------------------------------------------------------------
# Python level (constants)
# ------------------------------------------------------------------------------------------------

_cache = {}


def _std():
    from cohdl import std
    return std


def fixed_cls(kind, fmt):
    key = ("cls", kind, fmt)
    c = _cache.get(key)
    if c is None:
        std = _std()
        c = (std.SFixed if kind == "S" else std.UFixed)[fmt[0]:fmt[1]]
        _cache[key] = c
    return c


def bits_const(w, raw):
    from cohdl import BitVector
    return BitVector[w](format(raw, f"0{w}b"))


def fixed_const(kind, fmt, raw):
    """constant of the given format from its raw bit pattern, via the public from-bits interface"""
    key = (kind, fmt, raw)
    c = _cache.get(key)
    if c is None:
        c = _std().from_bits[fixed_cls(kind, fmt)](bits_const(width(fmt), raw))
        _cache[key] = c
    return c


def describe(x):
    """observable outcome of a Python level result"""
    std = _std()
    if isinstance(x, std.SFixed):
        kind = "S"
    elif isinstance(x, std.UFixed):
        kind = "U"
    else:
        if isinstance(x, bool):
            return ("bool", x)
        # cohdl Bit / Value[bool] style results
        from cohdl import TypeQualifier
        return ("bool", bool(TypeQualifier.decay(x)))
    from cohdl import TypeQualifier
    bits = TypeQualifier.decay(std.to_bits(x))  # results derived from a std.Variable are qualified temporaries
    s = str(bits)
    w = len(bits)
    raw = int(s, 2) if set(s) <= {"0", "1"} and len(s) == w else bits.unsigned.to_int()
    left, right = type(x).left(), type(x).right()
    if left - right + 1 != w:
        return ("malformed", kind, left, right, w)
    return ("fixed", kind, left, right, raw)


def py_styles():
    std = _std()
    return ({ref.TRUNCATE: std.FixedRoundStyle.TRUNCATE, ref.ROUND: std.FixedRoundStyle.ROUND},
            {ref.WRAP: std.FixedOverflowStyle.WRAP, ref.SATURATE: std.FixedOverflowStyle.SATURATE})


def py_function(op):
    """callable(a_raw, b_raw) executing the operation on constants"""
    from cohdl import Signed, Unsigned
    t = op[0]
    if t == "arith":
        _, o, kind, A, B = op
        import operator
        f = {"add": operator.add, "sub": operator.sub, "mul": operator.mul}[o]
        return lambda a, b: f(fixed_const(kind, A, a), fixed_const(kind, B, b))
    if t == "resize":
        _, kind, A, B, rs, os_ = op
        RS, OS = py_styles()
        if rs is None:
            return lambda a, b: fixed_const(kind, A, a).resize(B[0], B[1])
        return lambda a, b: fixed_const(kind, A, a).resize(B[0], B[1], round_style=RS[rs], overflow_style=OS[os_])
    if t == "eq":
        _, kind, A, B = op
        return lambda a, b: fixed_const(kind, A, a) == fixed_const(kind, B, b)
    if t == "ctor_f":
        _, kind, A, B = op
        T = fixed_cls(kind, B)
        return lambda a, b: T(fixed_const(kind, A, a))
    if t == "ctor_v":
        _, kind, A, vk, n = op
        T = fixed_cls(kind, A)
        if vk == "S":
            return lambda a, b: T(Signed[n](ref.to_signed(b, n)))
        return lambda a, b: T(Unsigned[n](b))
    if t == "arithc":
        _, o, kind, A, B, side, num, den = op
        import operator
        f = {"add": operator.add, "sub": operator.sub, "mul": operator.mul, "eq": operator.eq}[o]
        c = float(Fraction(num, den))
        assert Fraction(c) == Fraction(num, den)
        if side == "L":
            ca = fixed_cls(kind, A)(c)
            return lambda a, b: f(ca, fixed_const(kind, B, b))
        cb = fixed_cls(kind, B)(c)
        return lambda a, b: f(fixed_const(kind, A, a), cb)
    if t == "resize_s":
        _, shape, kind, A, B, T, rs, os_ = op
        pre, expr = shape_code(op)
        src = "def f(xa, xb):\n" + "".join(f"    {l}\n" for l in pre) + f"    return {expr}\n"
        std = _std()
        ns = {"std": std, "RS": std.FixedRoundStyle, "OS": std.FixedOverflowStyle}
        exec(compile(src, "<c19_shape>", "exec"), ns)
        fn = ns["f"]
        return lambda a, b: fn(fixed_const(kind, A, a), fixed_const(kind, B, b))
    if t in ("ctor_c", "eqc"):
        _, kind, A, form, num, den = op
        c = Fraction(num, den)
        if form == "int":
            assert c.denominator == 1
            c = int(c)
        else:
            c = float(c)
            assert Fraction(c) == Fraction(num, den)
        if t == "ctor_c":
            T = fixed_cls(kind, A)
            return lambda a, b: T(c)
        return lambda a, b: fixed_const(kind, A, a) == c
    raise ValueError(op)


def py_run(op, a, b):
    """-> ("ok", outcome) | ("exc", text)"""
    try:
        f = py_function(op)
        return ("ok", describe(f(a, b)))
    except Exception as e:  # noqa: cohdl rejects with AssertionError & friends
        return ("exc", f"{type(e).__name__}: {str(e)[:160]}")


# ------------------------------------------------------------------------------------------------
# compiled level: wrapper entity source
# ------------------------------------------------------------------------------------------------

def hw_expr(op, i=""):
    """(expression text, needs_to_bits)"""
    t = op[0]
    if t == "arithc":
        _, o, kind, A, B, side, num, den = op
        sym = {"add": "+", "sub": "-", "mul": "*", "eq": "=="}[o]
        lit = repr(float(Fraction(num, den)))
        e = f"({type_expr(kind, A)}({lit}) {sym} xb)" if side == "L" else f"(xa {sym} {type_expr(kind, B)}({lit}))"
        return e, o != "eq"
    if t == "resize_s":
        return shape_code(op, i)[1], True
    if t == "arith":
        sym = {"add": "+", "sub": "-", "mul": "*"}[op[1]]
        return f"(xa {sym} xb)", True
    if t == "resize":
        _, kind, A, B, rs, os_ = op
        if rs is None:
            return f"xa.resize({B[0]}, {B[1]})", True
        return f"xa.resize[{B[0]}:{B[1]}](RS.{rs}, OS.{os_})", True
    if t == "eq":
        return "(xa == xb)", False
    if t == "ctor_f":
        return f"{type_expr(op[1], op[3])}(xa)", True
    if t == "ctor_v":
        return f"{type_expr(op[1], op[2])}(self.b.{'signed' if op[3] == 'S' else 'unsigned'})", True
    if t in ("ctor_c", "eqc"):
        _, kind, A, form, num, den = op
        c = Fraction(num, den)
        lit = repr(int(c)) if form == "int" else repr(float(c))
        if t == "ctor_c":
            return f"{type_expr(kind, A)}({lit})", True
        return f"(xa == {lit})", False
    raise ValueError(op)


def hw_second_type(op):
    """format of xb (None: b is used raw or not at all)"""
    if op[0] == "arithc":
        return (op[2], op[4]) if op[5] == "L" else None
    if op[0] == "resize_s":
        return (op[2], op[4])
    if op[0] == "arith":
        return (op[2], op[4])
    if op[0] == "eq":
        return (op[1], op[3])
    return None


def hw_first_type(op):
    t = op[0]
    if t == "arithc":
        return None if op[5] == "L" else (op[2], op[3])
    if t == "resize_s":
        return (op[2], op[3])
    if t == "arith":
        return (op[2], op[3])
    if t in ("resize", "eq", "ctor_f", "eqc"):
        return (op[1], op[2])
    return None


SOURCES = ("value", "sig", "ref", "var", "rec", "recref", "arr")


def bus_layout(ta, tb):
    """field positions inside the wider bus used by the `ref` / `recref` operand sources:
    [top pad 1][xb field][gap][xa field][oa low bits]; offsets depend on the formats so that several
    offsets occur across the family.  -> dict(oa, ob (None without xb), W)"""
    (_, A) = ta
    wa = width(A)
    oa = 1 + (A[0] + 2 * A[1]) % 3
    if tb is None:
        return {"oa": oa, "ob": None, "gap": 0, "W": oa + wa + 1}
    (_, B) = tb
    gap = 1 + B[0] % 2
    ob = oa + wa + gap
    return {"oa": oa, "ob": ob, "gap": gap, "W": ob + width(B) + 1}


def entity_source(ops, out_widths, wa, wb, source="value"):
    """One wrapper computing every op in `ops` (all sharing the formats of xa / xb).
    out_widths[i] = width of the result's raw bits, or None for a boolean result.
    source = how the operands xa / xb are obtained from the raw input bits:
      value   std.from_bits[T](port)                     (a std.Value copy, the default qualifier)
      sig     std.Signal[T] driven from the port in another concurrent block
      ref     std.from_bits[T](dbus[hi:lo], std.Ref): a view into a field of a wider bus at a non-zero offset
      var     std.Variable[T] assigned in a clocked std.sequential process (outputs registered)
      rec     fields of a std.Signal[Rec] (Rec: std.Record with fields x: TA, y: TB)
      recref  fields of std.from_bits[Rec2](dbus, std.Ref) (record view of the bus, padding fields around x, y)
      arr     element 1 of a std.Array[TA, 2] (element 0 holds the complemented bits); xb as `value`
    -> (source text, io) with io = dict(mode="ab"|"bus", clk=bool, oa, ob, W)"""
    ta = {hw_first_type(op) for op in ops} - {None}
    tb = {hw_second_type(op) for op in ops} - {None}
    assert len(ta) <= 1 and len(tb) <= 1
    ta = next(iter(ta)) if ta else None
    tb = next(iter(tb)) if tb else None
    if ta is None:
        source = "value"  # nothing to vary: the operations do not read a fixed point operand
    io = {"mode": "ab", "clk": source == "var"}
    TA = type_expr(*ta) if ta else None
    TB = type_expr(*tb) if tb else None
    lines = [
        "from __future__ import annotations",
        "from cohdl import Entity, Port, Bit, BitVector, Signed, Unsigned",
        "from cohdl import std",
        "RS = std.FixedRoundStyle",
        "OS = std.FixedOverflowStyle",
    ]
    if ta:
        lines.append(f"TA = {TA}")
    if tb:
        lines.append(f"TB = {TB}")
    if source == "rec":
        lines += ["", "class Rec(std.Record):", "    x: TA"] + (["    y: TB"] if tb else [])
    if source in ("ref", "recref"):
        lay = bus_layout(ta, tb)
        io.update(mode="bus", **lay)
    if source == "recref":
        lines += ["", "class Rec2(std.Record):", f"    p0: BitVector[{lay['oa']}]", "    x: TA"]
        if tb:
            lines += [f"    p1: BitVector[{lay['gap']}]", "    y: TB"]
        lines += ["    p2: BitVector[1]"]
    lines += ["", "class T(Entity):"]
    if io["clk"]:
        lines.append("    clk = Port.input(Bit)")
    if io["mode"] == "bus":
        lines.append(f"    dbus = Port.input(BitVector[{io['W']}])")
        if wb and not tb:
            lines.append(f"    b = Port.input(BitVector[{wb}])")
    else:
        if wa:
            lines.append(f"    a = Port.input(BitVector[{wa}])")
        if wb:
            lines.append(f"    b = Port.input(BitVector[{wb}])")
    for i, w in enumerate(out_widths):
        lines.append(f"    o{i} = Port.output({'Bit' if w is None else f'BitVector[{w}]'})")
    lines += ["", "    def architecture(self):"]
    ind = "            "
    pre = []  # statements at the top of the block that computes the operations
    if source == "value":
        if ta:
            pre.append("xa = std.from_bits[TA](self.a)")
        if tb:
            pre.append("xb = std.from_bits[TB](self.b)")
    elif source == "sig":
        lines.append("        sa = std.Signal[TA]()")
        if tb:
            lines.append("        sb = std.Signal[TB]()")
        lines += ["        @std.concurrent", "        def drive():", ind + "sa.next = std.from_bits[TA](self.a)"]
        if tb:
            lines.append(ind + "sb.next = std.from_bits[TB](self.b)")
        pre.append("xa = sa")
        if tb:
            pre.append("xb = sb")
    elif source == "ref":
        pre.append(f"xa = std.from_bits[TA](self.dbus[{io['oa'] + wa - 1}:{io['oa']}], std.Ref)")
        if tb:
            pre.append(f"xb = std.from_bits[TB](self.dbus[{io['ob'] + width(tb[1]) - 1}:{io['ob']}], std.Ref)")
    elif source == "var":
        lines.append("        va = std.Variable[TA]()")
        if tb:
            lines.append("        vb = std.Variable[TB]()")
        pre.append("va.value = std.from_bits[TA](self.a)")
        if tb:
            pre.append("vb.value = std.from_bits[TB](self.b)")
        pre.append("xa = va")
        if tb:
            pre.append("xb = vb")
    elif source == "rec":
        lines.append("        rs = std.Signal[Rec]()")
        lines += ["        @std.concurrent", "        def drive():"]
        if tb:
            lines.append(ind + "rs.next = Rec(x=std.from_bits[TA](self.a), y=std.from_bits[TB](self.b))")
        else:
            lines.append(ind + "rs.next = Rec(x=std.from_bits[TA](self.a))")
        pre.append("xa = rs.x")
        if tb:
            pre.append("xb = rs.y")
    elif source == "recref":
        pre.append("rv = std.from_bits[Rec2](self.dbus, std.Ref)")
        pre.append("xa = rv.x")
        if tb:
            pre.append("xb = rv.y")
    elif source == "arr":
        lines.append("        arr = std.Array[TA, 2]()")
        lines += ["        @std.concurrent", "        def drive():",
                  ind + "arr[0] <<= std.from_bits[TA](~self.a)", ind + "arr[1] <<= std.from_bits[TA](self.a)"]
        pre.append("xa = arr[1]")
        if tb:
            pre.append("xb = std.from_bits[TB](self.b)")
    else:
        raise ValueError(source)
    if io["clk"]:
        lines += ["        @std.sequential(std.Clock(self.clk))", "        def logic():"]
    else:
        lines += ["        @std.concurrent", "        def logic():"]
    lines += [ind + x for x in pre]
    for i, op in enumerate(ops):
        if op[0] == "resize_s":
            lines += [ind + x for x in shape_code(op, i)[0]]
        e, bits = hw_expr(op, i)
        lines.append(f"{ind}self.o{i} <<= " + (f"std.to_bits({e})" if bits else e))
    return "\n".join(lines) + "\n", io


# ------------------------------------------------------------------------------------------------
# input classes: a failing input is identified by (operation case, class of the raw operand values)
# ------------------------------------------------------------------------------------------------
#
# The classes are fixed, documented predicates over the operands (computed with the reference, never with
# the implementation).  They partition the input space of a case; a known finding names one class, so a
# failure of an input outside that class has a different key and is reported.
#
# resize:  <sign>-<range>-<kept>-<round>[-srcones]
#   sign    neg | nonneg          sign of the source number
#   range   under | in | over     floor(v / 2**right) against the target's raw bounds (before rounding)
#   kept    keptones | keptmix    the bits of that floor below the target's sign position (UFixed: all target
#                                 bits) are all ones / are not
#   round   roundup | noround     ROUND selected and round-half-even moves the floor up by one
#   srcones                       every bit of the source pattern is 1
# + - * ==:  a<sign>-b<sign>      constructors / constants / sequences: "any"

def input_class(op, a, b):
    t = op[0]
    if t in ("arithc", "resize_s"):
        return input_class(*plain(op, a, b))
    if t == "resize":
        _, kind, A, B, rs, _os = op
        fs, ft = kfmt(kind, A), kfmt(kind, B)
        v = ref.value(fs, a)
        q = v / ref.pow2(ft[2])
        fl = ref.floor_frac(q)
        lo, hi = ref.int_bounds(ft)
        k = width(B) - 1 if kind == "S" else width(B)
        parts = [
            "neg" if v < 0 else "nonneg",
            "under" if fl < lo else ("over" if fl > hi else "in"),
            "keptones" if fl % (1 << k) == (1 << k) - 1 else "keptmix",
            "roundup" if rs == ref.ROUND and ref.round_half_even(q) > fl else "noround",
        ]
        if a == (1 << width(A)) - 1:
            parts.append("srcones")
        return "-".join(parts)
    if t in ("arith", "eq"):
        if t == "arith":
            fa, fb = kfmt(op[2], op[3]), kfmt(op[2], op[4])
        else:
            fa, fb = kfmt(op[1], op[2]), kfmt(op[1], op[3])
        return ("aneg" if ref.value(fa, a) < 0 else "anonneg") + "-" + ("bneg" if ref.value(fb, b) < 0 else "bnonneg")
    return "any"

"""Elaboration of a parsed design into (a) static findings + driver table (vfront verdicts) and
(b) generated Python code + a delta-cycle simulation kernel (vsim)."""
from __future__ import annotations

import hashlib

from . import parser as P
from . import rt
from .parser import Unsupported, VhdlSyntaxError
from .sem import (BOOL, INT, SEV, SL, STR, VEC, ALL_PREDEF_NAMES, Entry, ExprMixin, Finding, Ref, Scope, TypeErr,
                  default_value, is_vec, root_scope, scalar_count, tname)


class Builder:
    """Design-wide state shared by all instance analyzers."""

    def __init__(self, units, poison=False, poison_exclude=()):
        self.entities = {}
        self.archs = {}
        self.order = []
        for u in units:
            if isinstance(u, P.Entity):
                if u.name in self.entities:
                    raise VhdlSyntaxError(f"entity {u.name} declared twice")
                self.entities[u.name] = u
                self.order.append(u.name)
            else:
                self.archs.setdefault(u.entity, []).append(u)
        self.S_init = []
        self.S_names = []
        self.S_types = []
        self.V_init = []
        self.V_names = []
        self.code = []  # source lines inside make()
        self.procs = []  # (pyname, label path, sens sids tuple)
        self.findings = []
        self.blackboxes = []  # instances of entities from other libraries (static analysis only)
        self._fkeys = set()
        self.drivers = {}  # sid -> list of (driver id, frozenset flat idx)
        self.poison = poison
        self.poison_exclude = set(poison_exclude)
        self.proc_vars = {}  # proc index -> tuple of poisonable vids
        self.func_count = 0
        self.instances = []  # (path, entity name, label)
        self.assert_msgs = []

    def finding(self, rule, msg, line, entity):
        f = Finding(rule, msg, line, entity)
        if f.key() not in self._fkeys:
            self._fkeys.add(f.key())
            self.findings.append(f)

    def new_signal(self, name, ty, init=None):
        sid = len(self.S_init)
        self.S_init.append(default_value(ty) if init is None else init)
        self.S_names.append(name)
        self.S_types.append(ty)
        return sid

    def new_var(self, name, ty, init=None):
        vid = len(self.V_init)
        self.V_init.append(default_value(ty) if init is None else init)
        self.V_names.append(name)
        return vid


def flat_indices(ty, steps):
    """set of flat scalar indices of root type `ty` covered by static-normalised steps
    (dynamic index => whole dimension)."""
    n = scalar_count(ty)
    lo, hi = 0, n  # contiguous range suffices for idx/slice/bit chains, except dynamic idx => union
    ranges = [(0, n)]
    cur = ty
    for st in steps:
        new = []
        if st[0] == "idx":
            el = scalar_count(cur[3])
            for (a, b) in ranges:
                if st[1] is None:
                    new.append((a, b))
                else:
                    new.append((a + st[1] * el, a + (st[1] + 1) * el))
            if st[1] is None:
                # all elements, but deeper static steps still restrict inside each element: approximate by whole
                return frozenset(i for a, b in ranges for i in range(a, b))
            cur = cur[3]
        elif st[0] == "bit":
            if st[1] is None:
                return frozenset(i for a, b in ranges for i in range(a, b))
            for (a, b) in ranges:
                new.append((a + st[1], a + st[1] + 1))
            cur = SL
        else:
            for (a, b) in ranges:
                new.append((a + st[2], a + st[1] + 1))
            cur = VEC(cur[1], st[1] - st[2] + 1)
        ranges = new
    return frozenset(i for a, b in ranges for i in range(a, b))


class Analyzer(ExprMixin):
    def __init__(self, b: Builder, ent_name, path, bindings=None, depth=0):
        self.b = b
        self.ent = b.entities[ent_name]
        self.path = path  # instance path string
        self.ent_name = ent_name
        self._cache = {}
        self._keep = []
        self.scope = None
        self.in_process = None
        self.guard_depth = 0
        self.reads = []
        self._edge_flag = False
        self.bindings = bindings
        self.depth = depth
        self.lines = None
        self.ind = 0
        self.tmpn = 0
        self.cur_driver = None
        self.cur_proc_vars = None
        self.in_function = False
        self._proc_has_sens = True

    # --- findings
    def finding(self, rule, msg, line=0):
        self.b.finding(rule, msg, line, self.ent_name)

    # --- read / edge notes (called from ExprMixin)
    def note_read(self, e, line, ref=None):
        if e.store == "S":
            if e.mode == "out":
                self.finding("read-out-port", f"output port '{e.name}' is read", line)
            if self.in_process is not None:
                self.reads.append((e, self.guard_depth > 0, self.ref_bits(ref) if ref is not None else None))

    def ref_bits(self, ref):
        """flat scalar sub-elements of the root signal denoted by a reference (None = all / unknown)"""
        try:
            steps = self.unify_steps(ref)
            return flat_indices(self.b.S_types[ref.entry.sid], [(s_[0], s_[2]) if s_[0] != "slice" else ("slice", s_[3], s_[4]) for s_ in steps])
        except (TypeErr, Unsupported, IndexError, KeyError):
            return None

    def note_edge(self):
        self._edge_flag = True

    def var_read_code(self, e):
        if self.b.poison and e.extra == "poisonable":
            return f"PV({e.sid})"
        return f"V[{e.sid}]"

    # --- emit
    def emit(self, s):
        self.lines.append("    " * self.ind + s)

    def tmp(self):
        self.tmpn += 1
        return f"_t{self.tmpn}"

    # --- declarations
    def declare(self, scope, e: Entry, line=0):
        old = scope.names.get(e.name)
        if old is not None:
            if old.kind == "enumlit" and e.kind == "enumlit":
                old.overloads = old.overloads + e.overloads
                return old
            if old.kind == "func" and e.kind == "func" and old.overloads is not None and e.overloads is not None:
                old.overloads = old.overloads + e.overloads
                return old
            self.finding("duplicate", f"'{e.name}' is declared more than once in the same declarative region "
                                      f"({old.kind} and {e.kind})", line)
            return old
        scope.names[e.name] = e
        return e

    def const_eval(self, code, what):
        try:
            return eval(code, dict(vars(rt)))
        except Exception as ex:  # noqa
            raise Unsupported(f"non-static {what}: {code} ({ex})")

    def obj_decl(self, d, scope, in_proc):
        try:
            ty = self.type_from_subtype(d.subtype)
        except TypeErr as ex:
            self.finding(ex.rule, f"declaration of {d.raw}: {ex}", d.line)
            return
        init = None
        if d.init is not None:
            try:
                _, code = self.resolve(d.init, ty, f"initial value of {d.raw}")
                init = self.const_eval(code, "initial value")
            except TypeErr as ex:
                self.finding(ex.rule, f"initial value of {d.raw}: {ex}", d.line)
        if d.kind == "signal":
            if in_proc:
                self.finding("syntax", f"signal {d.raw} declared in a process", d.line)
                return
            sid = self.b.new_signal(f"{self.path}.{d.name}", ty, init)
            self.declare(scope, Entry("obj-signal", d.name, ty=ty, store="S", sid=sid, line=d.line), d.line)
        elif d.kind == "variable":
            if not in_proc:
                self.finding("syntax", f"variable {d.raw} declared outside a process", d.line)
                return
            vid = self.b.new_var(f"{self.path}.{self.in_process}.{d.name}", ty, init)
            poisonable = d.init is None and d.name not in self.b.poison_exclude
            e = Entry("obj-variable", d.name, ty=ty, store="V", sid=vid, line=d.line, extra="poisonable" if poisonable else None)
            self.declare(scope, e, d.line)
            if poisonable and self.cur_proc_vars is not None:
                self.cur_proc_vars.append(vid)
        else:
            if init is None:
                self.finding("syntax", f"constant {d.raw} without value", d.line)
                return
            self.declare(scope, Entry("obj-constant", d.name, ty=ty, store="C", sid=repr(init), line=d.line), d.line)

    def decls(self, decls, scope, in_proc=False):
        for d in decls:
            if isinstance(d, P.ObjDecl):
                self.obj_decl(d, scope, in_proc)
            elif isinstance(d, P.EnumTypeDecl):
                ty = ("enum", d.name, tuple(l[0] for l in d.literals))
                if len(set(ty[2])) != len(ty[2]):
                    self.finding("duplicate", f"enumeration {d.raw} repeats a literal", d.line)
                self.declare(scope, Entry("type", d.name, ty=ty, line=d.line), d.line)
                for i, (ln, lraw) in enumerate(d.literals):
                    self.declare(scope, Entry("enumlit", ln, overloads=[(ty, i)], line=d.line), d.line)
            elif isinstance(d, P.ArrayTypeDecl):
                try:
                    lo = self.static_int(d.range.left)
                    hi = self.static_int(d.range.right)
                    if d.range.dir != "to" or lo != 0:
                        raise Unsupported(f"array range {lo} {d.range.dir} {hi}")
                    et = self.type_from_subtype(d.elem)
                    ty = ("arr", d.name, hi + 1, et)
                    self.declare(scope, Entry("type", d.name, ty=ty, line=d.line), d.line)
                except TypeErr as ex:
                    self.finding(ex.rule, f"type {d.raw}: {ex}", d.line)
            elif isinstance(d, P.AttrDecl):
                try:
                    e = self.lookup(d.mark)
                    if e.kind not in ("type", "utype"):
                        raise TypeErr(f"'{d.mark}' is not a type")
                    self.declare(scope, Entry("attr", d.name, ty=e.ty, line=d.line), d.line)
                except TypeErr as ex:
                    self.finding(ex.rule, f"attribute {d.raw}: {ex}", d.line)
            elif isinstance(d, P.AttrSpec):
                try:
                    a = self.lookup(d.attr)
                    if a.kind != "attr":
                        raise TypeErr(f"'{d.attr}' is not an attribute")
                    t = self.lookup(d.target)
                    want = {"signal": "obj-signal", "variable": "obj-variable", "constant": "obj-constant"}.get(d.cls)
                    if want and t.kind != want:
                        raise TypeErr(f"attribute target '{d.target}' is not a {d.cls}")
                    if a.ty is not None:
                        self.resolve(d.value, a.ty, "attribute value")
                except TypeErr as ex:
                    self.finding(ex.rule, f"attribute specification: {ex}", d.line)
            elif isinstance(d, P.FuncDecl):
                self.func_decl(d, scope)
            else:
                raise Unsupported(f"declaration {type(d).__name__}")

    def func_decl(self, d, scope):
        try:
            params = []
            for pn, st in d.params:
                e = self.lookup(st.mark)
                if e.kind not in ("type", "utype"):
                    raise TypeErr(f"parameter type '{st.mark}' denotes a {e.kind}", "hidden-predefined" if st.mark in ALL_PREDEF_NAMES else "type")
                if e.kind != "type" or e.ty is None:
                    raise Unsupported("function parameter of unconstrained/unsupported type")
                params.append((pn, e.ty))
            r = self.lookup(d.ret)
            if r.kind not in ("type", "utype"):
                raise TypeErr(f"return type '{d.ret}' denotes a {r.kind}", "hidden-predefined" if d.ret in ALL_PREDEF_NAMES else "type")
            if r.kind != "type" or r.ty is None:
                raise Unsupported("function return type")
        except TypeErr as ex:
            self.finding(ex.rule, f"function {d.raw}: {ex}", d.line)
            return
        self.b.func_count += 1
        pyname = f"f_{d.name}_{self.b.func_count}"
        info = {"params": params, "ret": r.ty, "pyname": pyname}
        self.declare(scope, Entry("func", d.name, overloads=[info], line=d.line), d.line)
        saved = (self.scope, self.lines, self.ind, self.in_function, self.in_process)
        fs = Scope(scope, "function")
        for pn, pt in params:
            fs.names[pn] = Entry("obj-constant", pn, ty=pt, store="C", sid=f"a_{pn}")
        self.scope = fs
        self.lines = []
        self.ind = 1
        self.in_function = r.ty
        self.in_process = None
        self.emit(f"def {pyname}({', '.join('a_' + pn for pn, _ in params)}):")
        self.ind += 1
        if d.decls:
            raise Unsupported("declarations in function")
        self.stmts(d.body)
        self.emit("raise SimError('function did not return')")
        self.b.code.extend(self.lines)
        self.scope, self.lines, self.ind, self.in_function, self.in_process = saved

    # --- targets
    def unify_steps(self, ref):
        """entry.path (static) + ref.steps -> list of steps (kind, code, static, hi, lo, n, elemty), merged so that a
        vector step is last."""
        out = []
        e = ref.entry
        for st in e.path:
            if st[0] == "slice":
                out.append(["slice", None, None, st[1], st[2]])
            elif st[0] == "bit":
                out.append(["bit", str(st[1]), st[1]])
            else:
                out.append(["idx", str(st[1]), st[1]])
        for st in ref.steps:
            if st[0] == "slice":
                out.append(["slice", None, None, st[1], st[2]])
            elif st[0] == "bit":
                code = str(st[4]) if st[4] is not None else f"chk_idx({st[1]}, 0, {st[2]-1})"
                if st[4] is not None and not (0 <= st[4] < st[2]):
                    self.err(f"index {st[4]} out of range 0..{st[2]-1}")
                out.append(["bit", code, st[4]])
            else:
                code = str(st[4]) if st[4] is not None else f"chk_idx({st[1]}, 0, {st[2]-1})"
                if st[4] is not None and not (0 <= st[4] < st[2]):
                    self.err(f"index {st[4]} out of range 0..{st[2]-1}")
                out.append(["idx", code, st[4]])
        # merge slice followed by slice/bit
        merged = []
        for st in out:
            if merged and merged[-1][0] == "slice" and st[0] in ("slice", "bit"):
                p = merged[-1]
                lo = p[4]
                if st[0] == "slice":
                    merged[-1] = ["slice", None, None, lo + st[3], lo + st[4]]
                else:
                    merged[-1] = ["bit", f"({lo} + {st[1]})", None if st[2] is None else lo + st[2]]
            else:
                merged.append(st)
        return merged

    def gen_update(self, cur, steps, val):
        if not steps:
            return val
        st = steps[0]
        if st[0] == "idx":
            i = st[1]
            if st[2] is None:
                t = self.tmp()
                self.emit(f"{t} = {i}")
                i = t
            return f"t_set({cur}, {i}, {self.gen_update(f'{cur}[{i}]', steps[1:], val)})"
        if len(steps) != 1:
            raise Unsupported("vector step not last in target path")
        if st[0] == "bit":
            return f"v_setbit({cur}, {st[1]}, {val})"
        return f"v_setslice({cur}, {st[3]}, {st[4]}, {val})"

    def assign(self, node, is_signal):
        ref = self.resolve_ref(node.target, for_write=True)
        e = ref.entry
        line = node.line
        if is_signal:
            if e.store != "S":
                self.err(f"line {line}: signal assignment '<=' to {e.kind} '{e.name}'")
            if e.mode == "in":
                self.finding("write-input", f"input port '{e.name}' is assigned", line)
        else:
            if e.store != "V":
                self.err(f"line {line}: variable assignment ':=' to {e.kind} '{e.name}'")
        _, vcode = self.resolve(node.value, ref.ty, f"value assigned to '{e.name}'")
        steps = self.unify_steps(ref)
        if is_signal:
            if self.in_function:
                self.err("signal assignment in function")
            root_ty = self.b.S_types[e.sid]
            flat = flat_indices(root_ty, [(s[0], s[2]) if s[0] != "slice" else ("slice", s[3], s[4]) for s in steps])
            self.b.drivers.setdefault(e.sid, []).append((self.cur_driver, flat, line))
            if not steps:
                self.emit(f"N[{e.sid}] = {vcode}")
            else:
                t = self.tmp()
                self.emit(f"{t} = N[{e.sid}] if {e.sid} in N else S[{e.sid}]")
                self.emit(f"N[{e.sid}] = {self.gen_update(t, steps, vcode)}")
        else:
            if not steps:
                self.emit(f"V[{e.sid}] = {vcode}")
            else:
                self.emit(f"V[{e.sid}] = {self.gen_update(f'V[{e.sid}]', steps, vcode)}")
            if self.b.poison and e.extra == "poisonable":
                self.emit(f"PS.discard({e.sid})")

    # --- statements
    def stmts(self, body):
        if not body:
            self.emit("pass")
            return
        for s in body:
            n0 = len(self.lines)
            try:
                self.stmt(s)
            except TypeErr as ex:
                self.finding(ex.rule, str(ex) if str(ex).startswith("line") else f"line {s.line}: {ex}", s.line)
                del self.lines[n0:]
                self.emit(f"raise SimError('statically invalid statement at line {s.line}')")

    def stmt(self, s):
        if isinstance(s, P.SigAssign):
            self.assign(s, True)
        elif isinstance(s, P.VarAssign):
            self.assign(s, False)
        elif isinstance(s, P.If):
            first = True
            for cond, body in s.branches:
                self._edge_flag = False
                _, c = self.resolve(cond, BOOL, "condition")
                guarded = self._edge_flag
                self.emit(("if " if first else "elif ") + c + ":")
                first = False
                self.ind += 1
                if guarded:
                    self.guard_depth += 1
                self.stmts(body)
                if guarded:
                    self.guard_depth -= 1
                self.ind -= 1
            if s.orelse is not None:
                self.emit("else:")
                self.ind += 1
                self.stmts(s.orelse)
                self.ind -= 1
        elif isinstance(s, P.Case):
            self.case(s.expr, [(ch, body) for ch, body in s.alts], s.line, stmt=True)
        elif isinstance(s, P.Null):
            self.emit("pass")
        elif isinstance(s, P.Wait):
            if self.in_function or self.in_process is None:
                self.err("wait statement outside a process")
            if self._proc_has_sens:
                self.err("wait statement in a process with a sensitivity list", "syntax")
            self.emit("pass")
        elif isinstance(s, P.Assert):
            _, c = self.resolve(s.cond, BOOL, "assert condition")
            msg = "Assertion violation."
            if s.report is not None:
                _, m = self.resolve(s.report, STR, "report expression")
                msg = self.const_eval(m, "report string")
            if s.severity is not None:
                self.resolve(s.severity, SEV, "severity")
            self.emit(f"if not ({c}): A.append({msg!r})")
        elif isinstance(s, P.Return):
            if not self.in_function:
                self.err("return outside function")
            _, c = self.resolve(s.value, self.in_function, "return value")
            self.emit(f"return {c}")
        else:
            raise Unsupported(type(s).__name__)

    def case(self, sel, alts, line, stmt=True, target=None):
        cs = self.cands(sel)
        cs = [c for c in cs if c[0] != STR]
        tys = {c[0] for c in cs}
        if len(tys) != 1:
            self.err(f"line {line}: case/select expression type is ambiguous or invalid "
                     f"({', '.join(sorted(tname(t) for t in tys))})", "ambiguous")
        sty, scode = cs[0]
        inner = sel
        while isinstance(inner, P.Paren):
            inner = inner.expr
        if is_vec(sty) and isinstance(inner, (P.Binary, P.StrLit)) :
            # LRM 10.9: selector of a one-dimensional array type must have a locally static subtype:
            # an operator result (e.g. a & b) does not.  (slices/conversions/qualified expressions are fine)
            self.finding("case-selector", f"line {line}: case selector of array type is an operator expression "
                                          f"(subtype not locally static)", line)
        t = self.tmp()
        self.emit(f"{t} = {scode}")
        seen = {}
        has_others = False
        first = True
        nalts = len(alts)
        for ai, (choices, body) in enumerate(alts):
            conds = []
            others_here = False
            for ch in choices:
                if ch == "others":
                    others_here = True
                    if ai != nalts - 1 or len(choices) != 1:
                        self.finding("syntax", f"line {line}: 'others' must be the only choice of the last alternative", line)
                    continue
                if isinstance(ch, P.RangeArg):
                    raise Unsupported("range choice")
                _, cc = self.resolve(ch, sty, "choice")
                try:
                    v = self.const_eval(cc, "choice")
                except Unsupported:
                    self.finding("case-choice", f"line {line}: case choice is not static", line)
                    v = cc
                if v in seen:
                    self.finding("case-choice", f"line {line}: duplicate choice in case/select", line)
                seen[v] = 1
                conds.append(f"{t} == {v!r}")
            if others_here:
                has_others = True
                self.emit("else:" if not first else "if True:")
            else:
                self.emit(("if " if first else "elif ") + " or ".join(conds) + ":")
            first = False
            self.ind += 1
            if stmt:
                self.stmts(body)
            else:
                body()  # callback emitting the assignment
            self.ind -= 1
        if not has_others:
            # complete coverage check for scalar selector types
            n = {"bool": 2, "sl": 9}.get(sty[0])
            if sty[0] == "enum":
                n = len(sty[2])
            if is_vec(sty):
                n = 9 ** sty[2]
            complete = n is not None and len(seen) >= n
            # a case STATEMENT must have an others branch (property C06 wording); a selected signal assignment whose
            # choices cover the selector type completely is legal VHDL
            if stmt or not complete:
                self.finding("case-no-others", f"line {line}: case/select without an 'others' branch"
                             + ("" if complete else " and incomplete choices"), line)
            self.emit("else:")
            self.ind += 1
            self.emit(f"no_choice('case at line {line}')")
            self.ind -= 1

    # --- processes
    def begin_proc(self, label, line):
        idx = len(self.b.procs)
        pyname = f"p{idx}"
        self.lines = []
        self.ind = 1
        self.emit(f"def {pyname}():  # {self.path}.{label} line {line}")
        self.ind = 2
        self.reads = []
        self.guard_depth = 0
        self.tmpn = 0
        self.cur_driver = (self.path, label, idx)
        return idx, pyname

    def end_proc(self, idx, pyname, label, sens_sids):
        self.b.code.extend(self.lines)
        self.b.procs.append((pyname, f"{self.path}.{label}", tuple(sorted(set(sens_sids)))))
        self.lines = None

    def process(self, p):
        label = p.label or f"_proc{len(self.b.procs)}"
        self.in_process = label
        self._proc_has_sens = p.sens is not None
        idx, pyname = self.begin_proc(label, p.line)
        ps = Scope(self.scope, "process")
        saved_scope = self.scope
        self.scope = ps
        self.cur_proc_vars = []
        self.decls(p.decls, ps, in_proc=True)
        if self.b.poison and self.cur_proc_vars:
            self.emit(f"PS.update({tuple(self.cur_proc_vars)!r})")
        sens_sids = []
        sens_entries = []
        sens_bits = {}  # sid -> frozenset of flat sub-elements named in the sensitivity list (None = whole signal)
        runs_once = p.sens is None and bool(p.body) and isinstance(p.body[-1], P.Wait) and \
            not any(isinstance(x, P.Wait) for x in p.body[:-1])
        if p.sens is None and not runs_once:
            self.finding("sensitivity", f"process {label} has neither a sensitivity list nor a final `wait;`", p.line)
        elif p.sens is None:
            pass  # executes once during initialisation, then suspends forever
        elif p.sens == "all":
            pass
        else:
            for n in p.sens:
                try:
                    r = self.resolve_ref(n)
                    if r.entry.store != "S":
                        raise TypeErr(f"'{r.entry.name}' in sensitivity list is not a signal")
                    if r.entry.mode == "out":
                        self.finding("read-out-port", f"output port '{r.entry.name}' in sensitivity list", p.line)
                    sens_sids.append(r.entry.sid)
                    sens_entries.append(r.entry)
                    bits = self.ref_bits(r)
                    sens_bits[r.entry.sid] = None if (bits is None or sens_bits.get(r.entry.sid, frozenset()) is None) \
                        else sens_bits.get(r.entry.sid, frozenset()) | bits
                except TypeErr as ex:
                    self.finding(ex.rule, f"sensitivity list of {label}: {ex}", p.line)
        self.stmts(p.body)
        unguarded = {}
        allreads = {}
        partial = []
        for e, g, bits in self.reads:
            allreads[e.sid] = e
            if not g:
                unguarded[e.sid] = e
                # the sensitivity list may name single elements / slices of a signal: an unguarded read of OTHER
                # elements of the same signal is not covered by it
                have = sens_bits.get(e.sid, frozenset())
                if e.sid in sens_bits and have is not None:
                    need = bits if bits is not None else frozenset(range(scalar_count(self.b.S_types[e.sid])))
                    if not need <= have:
                        partial.append(f"{e.name}{sorted(need - have)}")
        if p.sens == "all":
            sens_sids = list(allreads)
        elif p.sens is not None:
            missing = [e.name for sid, e in unguarded.items() if sid not in sens_sids] + sorted(set(partial))
            if missing:
                self.finding("sensitivity", f"process {label}: signals read outside a clock-edge guard are missing from the "
                                            f"sensitivity list: {sorted(missing)}", p.line)
        self.scope = saved_scope
        self.b.proc_vars[idx] = tuple(self.cur_proc_vars)
        self.cur_proc_vars = None
        self.end_proc(idx, pyname, label, sens_sids)
        self.in_process = None

    def conc_assign(self, s, n):
        label = s.label or f"_conc{n}_l{s.line}"
        self.in_process = label
        idx, pyname = self.begin_proc(label, s.line)
        n0 = len(self.lines)
        try:
            if isinstance(s, P.ConcAssign):
                self.assign(s, True)
            elif isinstance(s, P.SelAssign):
                alts = []
                for val, choices in s.alts:
                    def mk(val=val):
                        self.assign(P.SigAssign(s.target, val, line=s.line), True)
                    alts.append((choices, mk))
                self.case(s.selector, alts, s.line, stmt=False)
            else:
                _, c = self.resolve(s.cond, BOOL, "assert condition")
                msg = "Assertion violation."
                if s.report is not None:
                    _, m = self.resolve(s.report, STR, "report")
                    msg = self.const_eval(m, "report string")
                self.emit(f"if not ({c}): A.append({msg!r})")
        except TypeErr as ex:
            self.finding(ex.rule, str(ex) if str(ex).startswith("line") else f"line {s.line}: {ex}", s.line)
            del self.lines[n0:]
            self.emit(f"raise SimError('statically invalid statement at line {s.line}')")
        sens = [e.sid for e, g, _b in self.reads]
        self.end_proc(idx, pyname, label, sens)
        self.in_process = None

    # --- instances
    def instance(self, s):
        lib = self.scope.lookup(s.lib)
        if lib is None or lib.kind != "lib":
            self.finding("hidden-predefined" if lib is not None else "unresolved",
                         f"line {s.line}: library name '{s.lib}' in instantiation "
                         + (f"denotes a {lib.kind} declared in this design" if lib is not None else "is not visible"), s.line)
        if s.lib != "work":
            # entity of another library: a static black box (port modes and types unknown).  The library name must be
            # visible (checked above) and every actual must denote an object of this architecture; the design cannot
            # be simulated (Design.sim raises Unsupported).
            for f, a, line in s.ports:
                inner = a
                while isinstance(inner, P.Paren):
                    inner = inner.expr
                if isinstance(inner, P.Apply) and isinstance(inner.prefix, P.Name) and len(inner.args) == 1 \
                        and not isinstance(inner.args[0], P.RangeArg):
                    try:
                        if self.lookup(inner.prefix.ident, line).kind == "utype":
                            inner = inner.args[0]
                    except TypeErr:
                        pass
                if isinstance(inner, (P.Name, P.Apply)):
                    try:
                        self.resolve_ref(inner)
                    except TypeErr as ex:
                        self.finding(ex.rule, str(ex), line)
            self.b.blackboxes.append((f"{self.path}.{s.label}", s.lib, s.entity))
            return
        child = self.b.entities.get(s.entity)
        if child is None:
            raise Unsupported(f"entity {s.entity} not in design file (extern entity)")
        if s.generics:
            raise Unsupported("generic map")
        archs = self.b.archs.get(s.entity, [])
        if s.arch is not None and not any(a.name == s.arch for a in archs):
            self.finding("unresolved", f"line {s.line}: architecture {s.arch} of {s.entity} does not exist", s.line)
            return
        if self.b.order.index(s.entity) > self.b.order.index(self.ent_name):
            self.finding("order", f"entity {s.entity} is instantiated by {self.ent_name} but emitted after it", s.line)
        formals = {p.name: p for p in child.ports}
        bound = {}
        # child types are resolved in the child's own context; compute via a throw-away analyzer
        ca = Analyzer(self.b, s.entity, f"{self.path}.{s.label}", depth=self.depth + 1)
        ctx_scope = root_scope(child.context)
        for f, a, line in s.ports:
            try:
                if f is None:
                    raise Unsupported("positional port association")
                # type conversions in association elements: `formal => T(actual)` (mode in/inout) and
                # `T(formal) => actual` (mode out/inout), T one of the closely related vector types
                conv_f = None
                if isinstance(f, P.Apply) and isinstance(f.prefix, P.Name) and len(f.args) == 1 \
                        and isinstance(f.args[0], P.Name) and f.args[0].ident in formals:
                    te = self.lookup(f.prefix.ident, line)
                    if te.kind != "utype":
                        raise TypeErr(f"line {line}: '{f.prefix.ident}' in the formal part is not a vector type mark", "portmap")
                    conv_f = te.extra
                    f = f.args[0]
                if not isinstance(f, P.Name):
                    raise Unsupported("partial formal association")
                fp = formals.get(f.ident)
                if fp is None:
                    raise TypeErr(f"line {line}: entity {s.entity} has no port '{f.ident}'", "portmap")
                if f.ident in bound:
                    raise TypeErr(f"line {line}: port '{f.ident}' associated more than once", "portmap")
                ca.scope = ctx_scope
                fty = ca.type_from_subtype(fp.subtype)
                inner = a
                while isinstance(inner, P.Paren):
                    inner = inner.expr
                if not isinstance(inner, (P.Name, P.Apply)):
                    raise Unsupported("expression as port actual")
                conv_a = None
                if isinstance(inner, P.Apply) and isinstance(inner.prefix, P.Name):
                    te = self.lookup(inner.prefix.ident, line)
                    if te.kind == "utype":
                        if len(inner.args) != 1 or isinstance(inner.args[0], P.RangeArg):
                            raise TypeErr(f"line {line}: type conversion takes exactly one operand", "portmap")
                        conv_a = te.extra
                        inner = inner.args[0]
                        while isinstance(inner, P.Paren):
                            inner = inner.expr
                        if not isinstance(inner, (P.Name, P.Apply)):
                            raise Unsupported("expression as port actual")
                ref = self.resolve_ref(inner)
                e = ref.entry
                if e.store != "S":
                    raise TypeErr(f"line {line}: actual for port '{f.ident}' is not a signal", "portmap")
                if conv_a is not None or conv_f is not None:
                    if conv_a is not None and fp.mode == "out":
                        raise TypeErr(f"line {line}: type conversion on the actual of output port '{f.ident}'", "portmap")
                    if conv_f is not None and fp.mode == "in":
                        raise TypeErr(f"line {line}: type conversion on the formal of input port '{f.ident}'", "portmap")
                    if not (is_vec(fty) and is_vec(ref.ty)):
                        raise TypeErr(f"line {line}: type conversion in the association of port '{f.ident}' between "
                                      f"{tname(ref.ty)} and {tname(fty)}", "portmap")
                    seen_by_formal = VEC(conv_a, ref.ty[2]) if conv_a is not None else ref.ty
                    seen_by_actual = VEC(conv_f, fty[2]) if conv_f is not None else fty
                    need_a = fp.mode in ("in", "inout")
                    need_f = fp.mode in ("out", "inout")
                    if (need_a and seen_by_formal != fty) or (need_f and seen_by_actual != ref.ty):
                        raise TypeErr(f"line {line}: port '{f.ident}' of {s.entity} has type {tname(fty)}"
                                      f"{' (converted to ' + tname(seen_by_actual) + ')' if conv_f else ''} but the actual "
                                      f"has type {tname(ref.ty)}{' (converted to ' + tname(seen_by_formal) + ')' if conv_a else ''}",
                                      "width" if fty[2] != ref.ty[2] else "portmap")
                elif ref.ty != fty:
                    raise TypeErr(f"line {line}: port '{f.ident}' of {s.entity} has type {tname(fty)} but the actual "
                                  f"has type {tname(ref.ty)}", "width" if is_vec(fty) and is_vec(ref.ty) and fty[1] == ref.ty[1] else "portmap")
                steps = self.unify_steps(ref)
                path = []
                for st in steps:
                    if st[0] == "slice":
                        path.append(("slice", st[3], st[4]))
                    else:
                        if st[2] is None:
                            raise TypeErr(f"line {line}: actual for port '{f.ident}' is not a static name", "portmap")
                        path.append((st[0], st[2]))
                if fp.mode == "in":
                    self.note_read(e, line)
                    if e.mode == "out":
                        pass  # finding already recorded by note_read
                else:
                    if e.mode == "in":
                        self.finding("write-input", f"line {line}: input port '{e.name}' is connected to {fp.mode} port "
                                                    f"'{f.ident}' of {s.entity}", line)
                    if fp.mode == "inout" and e.mode == "out":
                        pass
                bound[f.ident] = (e.sid, tuple(path), fty, fp.mode)
            except TypeErr as ex:
                self.finding(ex.rule, str(ex), line)
                return
        for name, fp in formals.items():
            if name not in bound and fp.mode == "in":
                self.finding("portmap", f"line {s.line}: input port '{name}' of {s.entity} is not associated", s.line)
                return
        self.b.instances.append((f"{self.path}.{s.label}", s.entity, s.label))
        sub = Analyzer(self.b, s.entity, f"{self.path}.{s.label}", bindings=bound, depth=self.depth + 1)
        if self.depth > 20:
            raise Unsupported("instantiation depth")
        sub.run()

    # --- whole instance
    def run(self):
        ent = self.ent
        archs = self.b.archs.get(self.ent_name, [])
        if len(archs) == 0:
            orphans = [f"{a.raw} of {a.entity}" for al in self.b.archs.values() for a in al if a.entity not in self.b.entities]
            self.finding("unresolved", f"entity {self.ent.raw} has no architecture in the design file"
                         + (f"; architecture(s) of unknown entities: {orphans}" if orphans else ""), self.ent.line)
            self.top_ports = {}
            self.top_port_order = [(p.name, p.mode, p.raw) for p in ent.ports]
            return
        if len(archs) != 1:
            raise Unsupported(f"entity {self.ent_name} has {len(archs)} architectures")
        arch = archs[0]
        try:
            root = root_scope(arch.context)
        except TypeErr as ex:
            self.finding(ex.rule, str(ex), arch.line)
            root = root_scope([])
        # the entity and architecture names live in the library region; the entity declarative region
        # (ports + architecture declarations + labels) is one region
        region = Scope(root, "entity")
        self.scope = region
        for p in ent.ports:
            try:
                ty = self.type_from_subtype(p.subtype)
            except TypeErr as ex:
                self.finding(ex.rule, f"port {p.raw}: {ex}", p.line)
                continue
            if self.bindings is None:
                sid = self.b.new_signal(f"{self.path}.{p.name}", ty)
                e = Entry("obj-signal", p.name, ty=ty, store="S", sid=sid, mode=p.mode, line=p.line)
            else:
                bnd = self.bindings.get(p.name)
                if bnd is None:
                    sid = self.b.new_signal(f"{self.path}.{p.name}(open)", ty)
                    e = Entry("obj-signal", p.name, ty=ty, store="S", sid=sid, mode=p.mode, line=p.line)
                else:
                    e = Entry("obj-signal", p.name, ty=ty, store="S", sid=bnd[0], path=bnd[1], mode=p.mode, line=p.line)
            self.declare(region, e, p.line)
        self.decls(arch.decls, region)
        # labels are declared in the same region
        for s in arch.stmts:
            lab = getattr(s, "label", None)
            if lab is not None:
                self.declare(region, Entry("label", lab, line=s.line), s.line)
        n = 0
        for s in arch.stmts:
            n += 1
            if isinstance(s, P.Process):
                self.process(s)
            elif isinstance(s, (P.ConcAssign, P.SelAssign, P.ConcAssert)):
                self.conc_assign(s, n)
            elif isinstance(s, P.Instance):
                self.instance(s)
            else:
                raise Unsupported(type(s).__name__)
        if self.bindings is None:
            self.top_ports = {p.name: region.names[p.name] for p in ent.ports if p.name in region.names}
            self.top_port_order = [(p.name, p.mode, p.raw) for p in ent.ports]


class Design:
    """Compiled design: static verdicts + code; create Sim objects from it."""

    def __init__(self, text, top=None, poison=False, poison_exclude=()):
        units = P.parse(text)
        b = Builder(units, poison, poison_exclude)
        b.block_lines = [i + 1 for i, l in enumerate(text.splitlines()) if "-- CONCURRENT BLOCK" in l]
        if not b.order:
            raise VhdlSyntaxError("no entity in design file")
        self.top = (top or b.order[-1]).lower()
        if self.top not in b.entities:
            raise Unsupported(f"top entity {self.top} not found")
        a = Analyzer(b, self.top, self.top)
        a.run()
        # entities not reachable from top are analysed stand-alone for static findings only
        reached = {self.top} | {e for _, e, _ in b.instances}
        self.b = b
        self.unreached = [e for e in b.order if e not in reached]
        self.findings = b.findings
        self.ports = {n: (e.sid, e.ty, e.mode) for n, e in a.top_ports.items()}
        self.port_order = a.top_port_order
        self.entity_order = list(b.order)
        self.instances = b.instances
        self.S_init = tuple(b.S_init)
        self.V_init = tuple(b.V_init)
        self.S_names = b.S_names
        self.S_types = b.S_types
        self.V_names = b.V_names
        self.procs = b.procs
        # multi-driver analysis
        self.multi_driven = []
        self.multi_driven_stmt = []
        import bisect
        for sid, lst in b.drivers.items():
            by = {}
            bys = {}
            for drv, flat, line in lst:
                bys.setdefault(drv, set()).update(flat)
                if drv[1].startswith("_conc"):
                    # all statements of one emitted concurrent block count as one driver (property C07 wording)
                    drv = (drv[0], f"_block{bisect.bisect_right(b.block_lines, line)}", -1)
                by.setdefault(drv, set()).update(flat)
            dss = list(bys.items())
            for i in range(len(dss)):
                for j in range(i + 1, len(dss)):
                    if dss[i][1] & dss[j][1]:
                        self.multi_driven_stmt.append((b.S_names[sid], dss[i][0][:2], dss[j][0][:2]))
            ds = list(by.items())
            for i in range(len(ds)):
                for j in range(i + 1, len(ds)):
                    if ds[i][1] & ds[j][1]:
                        self.multi_driven.append((b.S_names[sid], ds[i][0][:2], ds[j][0][:2]))
        self.driver_table = {b.S_names[sid]: sorted({d[0][:2] for d in lst}) for sid, lst in b.drivers.items()}
        src = ["def make(S, V, N, EV, L, A, PS, PR):",
               "    def PV(i):",
               "        if i in PS: PR.append(i)",
               "        return V[i]"]
        src.extend(b.code)
        src.append("    return [" + ", ".join(p[0] for p in b.procs) + "]")
        self.source = "\n".join(src)
        ns = dict(vars(rt))
        exec(compile(self.source, f"<vsim:{self.top}>", "exec"), ns)
        self._make = ns["make"]
        sens = {}
        for i, (_, _, sids) in enumerate(b.procs):
            for sid in sids:
                sens.setdefault(sid, []).append(i)
        self.sens = {k: tuple(v) for k, v in sens.items()}
        self.proc_vars = b.proc_vars
        self.poison = poison
        pv = {v for vs in b.proc_vars.values() for v in vs}
        # in poison mode stale values of poisonable variables cannot influence behaviour unless a poisoned read
        # is reported, so they are left out of snapshots (sound as long as Sim.PR stays empty)
        self.keep_vids = tuple(i for i in range(len(self.V_init)) if not (poison and i in pv))

    def errors(self):
        return [f for f in self.findings]

    def sim(self, init=None):
        """init: optional {input port: value} applied before the initialisation phase (inputs driven from time 0)"""
        if self.b.blackboxes:
            raise Unsupported(f"design instantiates entities of other libraries: {self.b.blackboxes}")
        return Sim(self, init)


_design_cache = {}


def compile_design(text, top=None, poison=False, poison_exclude=()):
    key = (hashlib.sha1(text.encode()).hexdigest(), top, poison, tuple(sorted(poison_exclude)))
    d = _design_cache.get(key)
    if d is None:
        if len(_design_cache) > 64:
            _design_cache.clear()
        d = Design(text, top, poison, poison_exclude)
        _design_cache[key] = d
    return d


class Sim:
    MAX_DELTAS = 500

    def __init__(self, d: Design, init=None):
        self.d = d
        self.S = list(d.S_init)
        if init:
            for name, value in init.items():
                sid, ty, mode = d.ports[name]
                self.S[sid] = to_raw(ty, value)
        self.V = list(d.V_init)
        self.N = {}
        self.EV = set()
        self.L = list(self.S)
        self.A = []  # assertion messages
        self.PS = set()
        self.PR = []  # poisoned reads (variable ids)
        self.procs = d._make(self.S, self.V, self.N, self.EV, self.L, self.A, self.PS, self.PR)
        self.sens = d.sens
        self.deltas = 0
        self.ports = d.ports
        # initialisation phase: every process runs once
        for p in self.procs:
            p()
        self.settle()

    # --- kernel
    def settle(self):
        S, N, L, EV, procs, sens = self.S, self.N, self.L, self.EV, self.procs, self.sens
        n = 0
        while N:
            changed = []
            for sid, val in N.items():
                if S[sid] != val:
                    L[sid] = S[sid]
                    S[sid] = val
                    changed.append(sid)
            N.clear()
            if not changed:
                break
            EV.clear()
            EV.update(changed)
            if len(changed) == 1:
                run = sens.get(changed[0], ())
            else:
                rs = set()
                for sid in changed:
                    rs.update(sens.get(sid, ()))
                run = sorted(rs)
            for i in run:
                procs[i]()
            n += 1
            if n > self.MAX_DELTAS:
                raise rt.SimError("delta cycle limit exceeded (combinational loop)")
        EV.clear()
        self.deltas += n

    # --- harness API
    def raw(self, name, value):
        sid, ty, mode = self.ports[name]
        return to_raw(ty, value)

    def set(self, name, value, settle=True):
        sid, ty, mode = self.ports[name]
        self.N[sid] = to_raw(ty, value)
        if settle:
            self.settle()

    def set_many(self, kv):
        for name, value in kv.items():
            sid, ty, mode = self.ports[name]
            self.N[sid] = to_raw(ty, value)
        self.settle()

    def get(self, name):
        sid, ty, mode = self.ports[name]
        return from_raw(ty, self.S[sid])

    def get_raw(self, name):
        return self.S[self.ports[name][0]]

    def outputs(self):
        return {n: from_raw(ty, self.S[sid]) for n, (sid, ty, mode) in self.ports.items() if mode != "in"}

    def clock(self, clk="clk"):
        sid = self.ports[clk][0]
        self.N[sid] = 1
        self.settle()
        self.N[sid] = 0
        self.settle()

    def snapshot(self):
        if self.d.poison:
            V = self.V
            return (tuple(self.S), tuple([V[i] for i in self.d.keep_vids]))
        return (tuple(self.S), tuple(self.V))

    def restore(self, snap):
        self.S[:] = snap[0]
        if self.d.poison:
            V = self.V
            for i, v in zip(self.d.keep_vids, snap[1]):
                V[i] = v
        else:
            self.V[:] = snap[1]
        self.N.clear()

    def poisoned_reads(self):
        """names of variables read before being written in some activation since the last call"""
        if not self.PR:
            return []
        out = sorted({self.d.V_names[i] for i in self.PR})
        del self.PR[:]
        return out

    def signal_by_name(self, suffix):
        for i, n in enumerate(self.d.S_names):
            if n.endswith(suffix):
                return i
        return None


def to_raw(ty, value):
    k = ty[0]
    if k == "sl":
        if value in (0, 1, 2):
            return int(value)
        if isinstance(value, str):
            return {"1": 1, "0": 0}.get(value, 2)
        return 1 if value else 0
    if k == "vec":
        if isinstance(value, tuple):
            return value
        if isinstance(value, str):
            return rt.v_from_str(value)
        return (int(value) & ((1 << ty[2]) - 1), 0)
    if k == "bool":
        return bool(value)
    if k == "int":
        return int(value)
    if k == "enum":
        if isinstance(value, str):
            return ty[2].index(value.lower())
        return int(value)
    if k == "arr":
        return tuple(to_raw(ty[3], v) for v in value)
    raise Unsupported(f"to_raw {ty}")


def from_raw(ty, v):
    """python-friendly value: ints for defined sl/vectors, None for values containing metavalues."""
    k = ty[0]
    if k == "sl":
        return None if v == 2 else v
    if k == "vec":
        return None if v[1] else v[0]
    if k == "arr":
        return tuple(from_raw(ty[3], x) for x in v)
    return v


def signed_of(v, w):
    if v is None:
        return None
    return v - (1 << w) if (v >> (w - 1)) & 1 else v

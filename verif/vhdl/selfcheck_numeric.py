"""Cross-check of the fast integer implementation of numeric_std (rt.py) against an independent
bit-serial transcription of the package algorithms (ripple-carry add, two's complement negate,
shift-and-add multiply, shift-subtract divide), exhaustively for small widths."""
from __future__ import annotations

from . import rt


def bits(v, w):
    return [(v >> i) & 1 for i in range(w)]  # LSB first


def val(b):
    return sum(x << i for i, x in enumerate(b))


def add_bits(a, b, cin=0):
    out = []
    c = cin
    for x, y in zip(a, b):
        s = x ^ y ^ c
        c = (x & y) | (x & c) | (y & c)
        out.append(s)
    return out


def neg_bits(a):
    return add_bits([1 - x for x in a], [0] * len(a), 1)


def ext(a, w, signed):
    f = a[-1] if (signed and a) else 0
    return (a + [f] * w)[:w] if w >= len(a) else a[:w]


def resize_sig(a, w):
    # numeric_std RESIZE for SIGNED: keep sign bit + low w-1 bits when truncating
    if w >= len(a):
        return ext(a, w, True)
    return a[: w - 1] + [a[-1]] if w > 0 else []


def mul_bits(a, b, signed):
    w = len(a) + len(b)
    if signed:
        sa, sb = a[-1], b[-1]
        ma = neg_bits(a) if sa else a
        mb = neg_bits(b) if sb else b
    else:
        sa = sb = 0
        ma, mb = a, b
    acc = [0] * w
    for i, bit in enumerate(mb):
        if bit:
            acc = add_bits(acc, ([0] * i + ma + [0] * w)[:w])
    if sa ^ sb:
        acc = neg_bits(acc)
    return acc


def divmod_unsigned_bits(n, d):
    # restoring division
    w = len(n)
    q = [0] * w
    r = [0] * (len(d) + 1)
    dd = d + [0]
    for i in range(w - 1, -1, -1):
        r = [n[i]] + r[:-1]
        diff = add_bits(r, [1 - x for x in dd], 1)
        # borrow-free if r >= dd  <=> carry out; recompute carry
        c = 1
        for x, y in zip(r, [1 - z for z in dd]):
            c = (x & y) | (x & c) | (y & c)
        if c:
            r = diff
            q[i] = 1
    return q, r[:-1]


def run(maxw=3):
    n = 0
    for wa in range(1, maxw + 1):
        for wb in range(1, maxw + 1):
            for a in range(1 << wa):
                for b in range(1 << wb):
                    A, B = (a, 0), (b, 0)
                    ab, bb = bits(a, wa), bits(b, wb)
                    w = max(wa, wb)
                    for signed in (False, True):
                        ea, eb = ext(ab, w, signed), ext(bb, w, signed)
                        exp = val(add_bits(ea, eb))
                        got = rt.n_arith("+", A, wa, B, wb, signed, w)
                        assert got == (exp, 0), ("+", wa, wb, a, b, signed, got, exp)
                        exp = val(add_bits(ea, [1 - x for x in eb], 1))
                        got = rt.n_arith("-", A, wa, B, wb, signed, w)
                        assert got == (exp, 0), ("-", wa, wb, a, b, signed, got, exp)
                        exp = val(mul_bits(ab, bb, signed))
                        got = rt.n_arith("*", A, wa, B, wb, signed, wa + wb)
                        assert got == (exp, 0), ("*", wa, wb, a, b, signed, got, exp)
                        n += 3
                        if b != 0:
                            if not signed:
                                q, r = divmod_unsigned_bits(ab, bb)
                                assert rt.n_arith("/", A, wa, B, wb, False, wa) == (val(q), 0)
                                assert rt.n_arith("rem", A, wa, B, wb, False, wb) == (val(r[:wb]), 0)
                                assert rt.n_arith("mod", A, wa, B, wb, False, wb) == (val(r[:wb]), 0)
                            else:
                                sa, sb = ab[-1], bb[-1]
                                ma = neg_bits(ab) if sa else ab
                                mb = neg_bits(bb) if sb else bb
                                q, r = divmod_unsigned_bits(ma, mb)
                                r = r[:wb]
                                qs = neg_bits(q) if sa ^ sb else q
                                assert rt.n_arith("/", A, wa, B, wb, True, wa) == (val(qs), 0), ("/", a, b, wa, wb)
                                rr = neg_bits(r) if sa else r
                                assert rt.n_arith("rem", A, wa, B, wb, True, wb) == (val(rr), 0), ("rem", a, b, wa, wb)
                                # mod: sign of divisor
                                if val(r) != 0 and (sa ^ sb):
                                    mm = add_bits(rr, bb)
                                else:
                                    mm = rr
                                assert rt.n_arith("mod", A, wa, B, wb, True, wb) == (val(mm), 0), ("mod", a, b, wa, wb)
                            n += 3
                        # comparisons
                        ia = a - (1 << wa) if signed and ab[-1] else a
                        ib = b - (1 << wb) if signed and bb[-1] else b
                        d = add_bits(ext(ab, w + 1, signed), [1 - x for x in ext(bb, w + 1, signed)], 1)
                        lt = d[-1] == 1
                        assert rt.n_cmp("<", A, wa, B, wb, signed) == lt == (ia < ib)
                        assert rt.n_cmp("=", A, wa, B, wb, signed) == (ext(ab, w, signed) == ext(bb, w, signed))
                        n += 2
            # resize / shifts
            for a in range(1 << wa):
                ab = bits(a, wa)
                assert rt.resize_s((a, 0), wa, wb) == (val(resize_sig(ab, wb)), 0), (a, wa, wb)
                assert rt.resize_u((a, 0), wa, wb)[0] == val(ext(ab, wb, False))
                for sh in range(0, wa + 2):
                    l = ([0] * sh + ab)[:wa]
                    assert rt.shift_left((a, 0), sh, wa) == (val(l), 0)
                    r = (ab + [0] * sh)[sh: sh + wa]
                    assert rt.shift_right_u((a, 0), sh, wa) == (val(r), 0)
                    rs = (ab + [ab[-1]] * (sh + wa))[sh: sh + wa]
                    assert rt.shift_right_s((a, 0), sh, wa) == (val(rs), 0), (a, sh, wa)
                    n += 3
    return n

"""Lexer + parser for the VHDL-2008 subset emitted by cohdl (see DESIGN.md Appendix A).

Anything outside the subset raises VhdlSyntaxError (a *verdict* for C06 when it is a genuine
syntax error of the language) or Unsupported (tool error: legal VHDL we do not handle).
"""
from __future__ import annotations

import re


class VhdlSyntaxError(Exception):
    pass


class Unsupported(Exception):
    pass


RESERVED_93 = set("""abs access after alias all and architecture array assert attribute begin block body buffer bus case
component configuration constant disconnect downto else elsif end entity exit file for function generate generic group
guarded if impure in inertial inout is label library linkage literal loop map mod nand new next nor not null of on open
or others out package port postponed procedure process pure range record register reject rem report return rol ror
select severity signal shared sla sll sra srl subtype then to transport type unaffected units until use variable wait
when while with xnor xor""".split())
RESERVED_2008_EXTRA = set("""assume assume_guarantee context cover default fairness force parameter property protected
release restrict restrict_guarantee sequence strong vmode vprop vunit""".split())
RESERVED = RESERVED_93 | RESERVED_2008_EXTRA

_tok_re = re.compile(
    r"""
    (?P<ws>\s+)
  | (?P<comment>--[^\n]*)
  | (?P<bitstr>[0-9]*[bBoOxXdD]"[^"\n]*")
  | (?P<id>[A-Za-z][A-Za-z0-9_]*)
  | (?P<extid>\\[^\\\n]*\\)
  | (?P<num>[0-9][0-9_]*(?:\.[0-9_]+)?(?:[eE][+-]?[0-9]+)?)
  | (?P<str>"(?:[^"\n]|"")*")
  | (?P<op><=|:=|=>|/=|>=|\*\*|<>|\?\?|\?=|\?/=|[()\[\],;:.'&+\-*/=<>|])
""",
    re.X,
)


class Tok:
    __slots__ = ("kind", "val", "line", "raw")

    def __init__(self, kind, val, line, raw=None):
        self.kind = kind  # 'id','kw','num','str','char','bitstr','op','eof'
        self.val = val
        self.line = line
        self.raw = raw if raw is not None else val

    def __repr__(self):
        return f"{self.kind}:{self.val!r}@{self.line}"


def lex(text: str):
    toks = []
    i = 0
    n = len(text)
    line = 1
    while i < n:
        ch = text[i]
        # character literal: 'x' where previous token is not an identifier / ')' / 'all'
        if ch == "'" and i + 2 < n and text[i + 2] == "'":
            prev = toks[-1] if toks else None
            is_tick = prev is not None and (prev.kind == "id" or (prev.kind == "op" and prev.val == ")") or (prev.kind == "kw" and prev.val == "all"))
            # x'('1') : after the tick comes '(' so text[i+2] is not a quote there; the remaining
            # ambiguous case  id'('  is handled because text[i+1]=='(' and text[i+2]=="'" :
            if is_tick and text[i + 1] == "(":
                is_tick = True
            if not is_tick:
                toks.append(Tok("char", text[i + 1], line))
                i += 3
                continue
        m = _tok_re.match(text, i)
        if not m:
            raise VhdlSyntaxError(f"line {line}: illegal character {text[i]!r}")
        kind = m.lastgroup
        s = m.group(kind)
        i = m.end()
        if kind in ("ws", "comment"):
            line += s.count("\n")
            continue
        if kind == "id":
            low = s.lower()
            # identifier lexical rules: letters/digits/underscore, no leading (guaranteed by regex),
            # no trailing underscore, no double underscore
            if low in RESERVED:
                toks.append(Tok("kw", low, line, s))
            else:
                if s.endswith("_") or "__" in s:
                    raise VhdlSyntaxError(f"line {line}: illegal identifier {s!r}")
                toks.append(Tok("id", low, line, s))
        elif kind == "extid":
            raise Unsupported(f"line {line}: extended identifier {s}")
        elif kind == "num":
            if "." in s or "e" in s.lower():
                raise Unsupported(f"line {line}: real/exponent literal {s}")
            toks.append(Tok("num", int(s.replace("_", "")), line))
        elif kind == "str":
            toks.append(Tok("str", s[1:-1].replace('""', '"'), line))
        elif kind == "bitstr":
            raise Unsupported(f"line {line}: bit string literal {s}")
        else:
            toks.append(Tok("op", s, line))
        # an identifier immediately followed by '_' garbage (e.g. "_x") is caught by the regex failing
    toks.append(Tok("eof", None, line))
    return toks


# ----------------------------------------------------------------------------
# AST
# ----------------------------------------------------------------------------
class Node:
    __slots__ = ("line",)


def _mk(name, fields):
    def __init__(self, *a, line=0):
        assert len(a) == len(fields), (name, a)
        for f, v in zip(fields, a):
            setattr(self, f, v)
        self.line = line

    def __repr__(self):
        return name + "(" + ", ".join(f"{f}={getattr(self, f)!r}" for f in fields) + ")"

    return type(name, (Node,), {"__slots__": tuple(fields), "__init__": __init__, "__repr__": __repr__, "_fields": fields})


# expressions
IntLit = _mk("IntLit", ["value"])
StrLit = _mk("StrLit", ["value"])
CharLit = _mk("CharLit", ["value"])
Name = _mk("Name", ["ident"])  # simple name (lower-cased)
Selected = _mk("Selected", ["prefix", "suffix"])
Apply = _mk("Apply", ["prefix", "args"])  # call / index / slice / conversion; args: list of Expr | RangeArg | Assoc
RangeArg = _mk("RangeArg", ["left", "dir", "right"])
Assoc = _mk("Assoc", ["choices", "value"])  # choices: list of Expr | 'others'
Qualified = _mk("Qualified", ["mark", "expr"])
Attr = _mk("Attr", ["prefix", "attr"])
Aggregate = _mk("Aggregate", ["items"])  # list of Assoc (named) or Expr (positional)
Paren = _mk("Paren", ["expr"])
Binary = _mk("Binary", ["op", "left", "right"])
Unary = _mk("Unary", ["op", "operand"])

# declarations
SubtypeInd = _mk("SubtypeInd", ["mark", "constraint"])  # constraint: RangeArg | None
PortDecl = _mk("PortDecl", ["name", "mode", "subtype", "raw"])
ObjDecl = _mk("ObjDecl", ["kind", "name", "subtype", "init", "raw"])  # kind: signal/variable/constant
EnumTypeDecl = _mk("EnumTypeDecl", ["name", "literals", "raw"])
ArrayTypeDecl = _mk("ArrayTypeDecl", ["name", "range", "elem", "raw"])
AttrDecl = _mk("AttrDecl", ["name", "mark", "raw"])
AttrSpec = _mk("AttrSpec", ["attr", "target", "cls", "value"])
FuncDecl = _mk("FuncDecl", ["name", "params", "ret", "decls", "body", "raw"])

# statements
SigAssign = _mk("SigAssign", ["target", "value"])
VarAssign = _mk("VarAssign", ["target", "value"])
If = _mk("If", ["branches", "orelse"])  # branches: list of (cond, stmts)
Case = _mk("Case", ["expr", "alts"])  # alts: list of (choices, stmts)
Null = _mk("Null", [])
Assert = _mk("Assert", ["cond", "report", "severity"])
Return = _mk("Return", ["value"])
Wait = _mk("Wait", [])  # plain `wait;` (suspend forever) only

# concurrent
ConcAssign = _mk("ConcAssign", ["label", "target", "value"])
SelAssign = _mk("SelAssign", ["label", "selector", "target", "alts"])  # alts: list of (value, choices)
Process = _mk("Process", ["label", "sens", "decls", "body", "raw_label"])  # sens: list of names | 'all' | None
Instance = _mk("Instance", ["label", "lib", "entity", "arch", "generics", "ports", "raw_label"])
ConcAssert = _mk("ConcAssert", ["label", "cond", "report", "severity"])

Entity = _mk("Entity", ["name", "ports", "generics", "context", "raw"])
Architecture = _mk("Architecture", ["name", "entity", "decls", "stmts", "context", "raw"])


class Parser:
    def __init__(self, text):
        self.toks = lex(text)
        self.p = 0

    # -- token helpers
    @property
    def t(self):
        return self.toks[self.p]

    def err(self, msg):
        raise VhdlSyntaxError(f"line {self.t.line}: {msg} (at {self.t.raw!r})")

    def at(self, kind, val=None):
        t = self.toks[self.p]
        return t.kind == kind and (val is None or t.val == val)

    def at_kw(self, *vals):
        t = self.toks[self.p]
        return t.kind == "kw" and t.val in vals

    def at_op(self, *vals):
        t = self.toks[self.p]
        return t.kind == "op" and t.val in vals

    def eat(self, kind, val=None):
        t = self.toks[self.p]
        if t.kind != kind or (val is not None and t.val != val):
            self.err(f"expected {val or kind}")
        self.p += 1
        return t

    def kw(self, val):
        return self.eat("kw", val)

    def op(self, val):
        return self.eat("op", val)

    def opt_kw(self, val):
        if self.at("kw", val):
            self.p += 1
            return True
        return False

    def opt_op(self, val):
        if self.at("op", val):
            self.p += 1
            return True
        return False

    def ident(self):
        t = self.toks[self.p]
        if t.kind == "kw":
            self.err(f"reserved word {t.raw!r} used as identifier")
        return self.eat("id")

    # -- design file
    def design_file(self):
        units = []
        ctx = []
        while not self.at("eof"):
            if self.at_kw("library"):
                self.p += 1
                names = [self.ident().val]
                while self.opt_op(","):
                    names.append(self.ident().val)
                self.op(";")
                ctx.append(("library", names))
            elif self.at_kw("use"):
                self.p += 1
                parts = [self.ident().val]
                while self.opt_op("."):
                    if self.opt_kw("all"):
                        parts.append("all")
                    else:
                        parts.append(self.ident().val)
                self.op(";")
                ctx.append(("use", parts))
            elif self.at_kw("entity"):
                units.append(self.entity(ctx))
                # the context clause applies to the entity and (by LRM 13.1/12.?) to its architectures
            elif self.at_kw("architecture"):
                units.append(self.architecture(ctx))
                ctx = []
            else:
                self.err("expected design unit")
        return units

    def entity(self, ctx):
        line = self.t.line
        self.kw("entity")
        nt = self.ident()
        self.kw("is")
        generics = []
        ports = []
        if self.at_kw("generic"):
            raise Unsupported("generic clause in entity declaration")
        if self.opt_kw("port"):
            self.op("(")
            while True:
                pn = self.ident()
                names = [pn]
                while self.opt_op(","):
                    names.append(self.ident())
                self.op(":")
                if self.at_kw("in", "out", "inout", "buffer", "linkage"):
                    mode = self.t.val
                    self.p += 1
                else:
                    mode = "in"
                st = self.subtype_ind()
                if self.opt_op(":="):
                    raise Unsupported("port default expression")
                for q in names:
                    ports.append(PortDecl(q.val, mode, st, q.raw, line=q.line))
                if self.opt_op(";"):
                    if self.at_op(")"):
                        self.err("trailing ';' in port list")
                    continue
                break
            self.op(")")
            self.op(";")
        self.kw("end")
        self.opt_kw("entity")
        if self.at("id"):
            e = self.ident()
            if e.val != nt.val:
                self.err(f"end name {e.raw} does not match entity {nt.raw}")
        self.op(";")
        return Entity(nt.val, ports, generics, list(ctx), nt.raw, line=line)

    def architecture(self, ctx):
        line = self.t.line
        self.kw("architecture")
        nt = self.ident()
        self.kw("of")
        en = self.ident()
        self.kw("is")
        decls = self.block_decls()
        self.kw("begin")
        stmts = []
        while not self.at_kw("end"):
            stmts.append(self.conc_stmt())
        self.kw("end")
        self.opt_kw("architecture")
        if self.at("id"):
            e = self.ident()
            if e.val != nt.val:
                self.err(f"end name {e.raw} does not match architecture {nt.raw}")
        self.op(";")
        return Architecture(nt.val, en.val, decls, stmts, list(ctx), nt.raw, line=line)

    def subtype_ind(self):
        line = self.t.line
        mark = self.ident().val
        cons = None
        if self.at_op("("):
            self.p += 1
            l = self.expr()
            if self.at_kw("to", "downto"):
                d = self.t.val
                self.p += 1
            else:
                self.err("expected to/downto")
            r = self.expr()
            self.op(")")
            cons = RangeArg(l, d, r, line=line)
        elif self.at_kw("range"):
            raise Unsupported("range constraint")
        return SubtypeInd(mark, cons, line=line)

    def block_decls(self, in_process=False):
        decls = []
        while True:
            line = self.t.line
            if self.at_kw("signal", "variable", "constant"):
                kind = self.t.val
                self.p += 1
                if self.at_kw("shared"):
                    raise Unsupported("shared variable")
                nt = self.ident()
                if self.at_op(","):
                    raise Unsupported("identifier list in object declaration")
                self.op(":")
                st = self.subtype_ind()
                init = None
                if self.opt_op(":="):
                    init = self.expr()
                self.op(";")
                decls.append(ObjDecl(kind, nt.val, st, init, nt.raw, line=line))
            elif self.at_kw("type"):
                self.p += 1
                nt = self.ident()
                self.kw("is")
                if self.opt_op("("):
                    lits = []
                    while True:
                        if self.at("char"):
                            raise Unsupported("character enumeration literal")
                        lits.append(self.ident())
                        if not self.opt_op(","):
                            break
                    self.op(")")
                    self.op(";")
                    decls.append(EnumTypeDecl(nt.val, [(l.val, l.raw) for l in lits], nt.raw, line=line))
                elif self.opt_kw("array"):
                    self.op("(")
                    l = self.expr()
                    if not self.at_kw("to", "downto"):
                        raise Unsupported("unconstrained / discrete-subtype array index")
                    d = self.t.val
                    self.p += 1
                    r = self.expr()
                    self.op(")")
                    self.kw("of")
                    el = self.subtype_ind()
                    self.op(";")
                    decls.append(ArrayTypeDecl(nt.val, RangeArg(l, d, r, line=line), el, nt.raw, line=line))
                else:
                    raise Unsupported("type definition")
            elif self.at_kw("attribute"):
                self.p += 1
                nt = self.ident()
                if self.opt_op(":"):
                    mark = self.ident().val
                    self.op(";")
                    decls.append(AttrDecl(nt.val, mark, nt.raw, line=line))
                else:
                    self.kw("of")
                    if self.at_kw("others", "all"):
                        raise Unsupported("attribute spec others/all")
                    tgt = self.ident().val
                    self.op(":")
                    if self.t.kind != "kw":
                        self.err("expected entity class")
                    cls = self.t.val
                    self.p += 1
                    self.kw("is")
                    val = self.expr()
                    self.op(";")
                    decls.append(AttrSpec(nt.val, tgt, cls, val, line=line))
            elif self.at_kw("function") or self.at_kw("pure") or self.at_kw("impure"):
                if in_process:
                    raise Unsupported("function in process")
                decls.append(self.function())
            elif self.at_kw("begin", "end"):
                return decls
            else:
                if self.at_kw("component", "subtype", "alias", "procedure", "file", "use", "for", "shared", "package", "group", "disconnect"):
                    raise Unsupported(f"declaration {self.t.val}")
                self.err("expected declaration")

    def function(self):
        line = self.t.line
        if self.at_kw("pure", "impure"):
            self.p += 1
        self.kw("function")
        nt = self.ident()
        params = []
        if self.opt_op("("):
            while True:
                if self.at_kw("signal", "constant", "variable"):
                    raise Unsupported("parameter class")
                pn = self.ident()
                self.op(":")
                self.opt_kw("in")
                st = self.subtype_ind()
                params.append((pn.val, st))
                if not self.opt_op(";"):
                    break
            self.op(")")
        self.kw("return")
        ret = self.ident().val
        self.kw("is")
        decls = self.block_decls(in_process=True)
        self.kw("begin")
        body = self.seq_stmts(("end",))
        self.kw("end")
        self.opt_kw("function")
        if self.at("id"):
            e = self.ident()
            if e.val != nt.val:
                self.err("end name mismatch")
        self.op(";")
        return FuncDecl(nt.val, params, ret, decls, body, nt.raw, line=line)

    # -- concurrent statements
    def conc_stmt(self):
        line = self.t.line
        label = None
        raw_label = None
        if self.at("id") and self.toks[self.p + 1].kind == "op" and self.toks[self.p + 1].val == ":":
            lt = self.ident()
            label, raw_label = lt.val, lt.raw
            self.op(":")
        if self.at_kw("postponed"):
            raise Unsupported("postponed")
        if self.at_kw("process"):
            self.p += 1
            sens = None
            if self.opt_op("("):
                if self.opt_kw("all"):
                    sens = "all"
                else:
                    sens = []
                    if self.at_op(")"):
                        self.err("empty sensitivity list")
                    while True:
                        sens.append(self.name())
                        if not self.opt_op(","):
                            break
                self.op(")")
            self.opt_kw("is")
            decls = self.block_decls(in_process=True)
            self.kw("begin")
            body = self.seq_stmts(("end",))
            self.kw("end")
            self.opt_kw("postponed")
            self.kw("process")
            if self.at("id"):
                e = self.ident()
                if e.val != label:
                    self.err("process end label mismatch")
            self.op(";")
            return Process(label, sens, decls, body, raw_label, line=line)
        if self.at_kw("entity"):
            if label is None:
                self.err("instantiation needs a label")
            self.p += 1
            lib = self.ident().val
            self.op(".")
            ent = self.ident().val
            arch = None
            if self.opt_op("("):
                arch = self.ident().val
                self.op(")")
            generics = []
            ports = []
            if self.opt_kw("generic"):
                self.kw("map")
                generics = self.assoc_list()
            if self.opt_kw("port"):
                self.kw("map")
                ports = self.assoc_list()
            self.op(";")
            return Instance(label, lib, ent, arch, generics, ports, raw_label, line=line)
        if self.at_kw("assert"):
            self.p += 1
            c = self.expr()
            rep = sev = None
            if self.opt_kw("report"):
                rep = self.expr()
            if self.opt_kw("severity"):
                sev = self.expr()
            self.op(";")
            return ConcAssert(label, c, rep, sev, line=line)
        if self.at_kw("with"):
            self.p += 1
            sel = self.expr()
            self.kw("select")
            tgt = self.name()
            self.op("<=")
            alts = []
            while True:
                v = self.expr()
                self.kw("when")
                ch = self.choices()
                alts.append((v, ch))
                if not self.opt_op(","):
                    break
            self.op(";")
            return SelAssign(label, sel, tgt, alts, line=line)
        if self.at_kw("block", "component", "for", "if", "case"):
            raise Unsupported(f"concurrent statement {self.t.val}")
        if self.at("id"):
            tgt = self.name()
            if self.at_op("<="):
                self.p += 1
                if self.at_kw("transport", "reject", "inertial", "guarded", "force", "release"):
                    raise Unsupported("delay mechanism")
                v = self.expr()
                if self.at_kw("when"):
                    raise Unsupported("conditional signal assignment")
                if self.at_kw("after"):
                    raise Unsupported("after clause")
                self.op(";")
                return ConcAssign(label, tgt, v, line=line)
            if label is not None or self.at_op(";", "("):
                raise Unsupported("component instantiation / procedure call")
        self.err("expected concurrent statement")

    def assoc_list(self):
        self.op("(")
        items = []
        while True:
            line = self.t.line
            if self.at_kw("open"):
                raise Unsupported("open association")
            e = self.expr()
            if self.opt_op("=>"):
                if self.at_kw("open"):
                    raise Unsupported("open association")
                a = self.expr()
                items.append((e, a, line))
            else:
                items.append((None, e, line))
            if not self.opt_op(","):
                break
        self.op(")")
        return items

    # -- sequential statements
    def seq_stmts(self, stop):
        out = []
        while not self.at_kw(*stop):
            out.append(self.seq_stmt())
        return out

    def seq_stmt(self):
        line = self.t.line
        if self.at("id") and self.toks[self.p + 1].kind == "op" and self.toks[self.p + 1].val == ":":
            raise Unsupported("labelled sequential statement")
        if self.at_kw("if"):
            self.p += 1
            branches = []
            c = self.expr()
            self.kw("then")
            b = self.seq_stmts(("elsif", "else", "end"))
            branches.append((c, b))
            orelse = None
            while True:
                if self.opt_kw("elsif"):
                    c = self.expr()
                    self.kw("then")
                    b = self.seq_stmts(("elsif", "else", "end"))
                    branches.append((c, b))
                elif self.opt_kw("else"):
                    orelse = self.seq_stmts(("end",))
                    break
                else:
                    break
            self.kw("end")
            self.kw("if")
            self.op(";")
            return If(branches, orelse, line=line)
        if self.at_kw("case"):
            self.p += 1
            if self.at_op("?"):
                raise Unsupported("matching case")
            e = self.expr()
            self.kw("is")
            alts = []
            if not self.at_kw("when"):
                self.err("case statement without alternatives")
            while self.opt_kw("when"):
                ch = self.choices()
                self.op("=>")
                b = self.seq_stmts(("when", "end"))
                alts.append((ch, b))
            self.kw("end")
            self.kw("case")
            self.op(";")
            return Case(e, alts, line=line)
        if self.at_kw("null"):
            self.p += 1
            self.op(";")
            return Null(line=line)
        if self.at_kw("assert"):
            self.p += 1
            c = self.expr()
            rep = sev = None
            if self.opt_kw("report"):
                rep = self.expr()
            if self.opt_kw("severity"):
                sev = self.expr()
            self.op(";")
            return Assert(c, rep, sev, line=line)
        if self.at_kw("return"):
            self.p += 1
            v = None
            if not self.at_op(";"):
                v = self.expr()
            self.op(";")
            return Return(v, line=line)
        if self.at_kw("wait"):
            self.p += 1
            if not self.at_op(";"):
                raise Unsupported("wait with condition / sensitivity / timeout")
            self.op(";")
            return Wait(line=line)
        if self.at_kw("for", "while", "loop", "next", "exit", "report"):
            raise Unsupported(f"sequential statement {self.t.val}")
        if self.at("id") or self.at_op("("):
            if self.at_op("("):
                raise Unsupported("aggregate target")
            tgt = self.name()
            if self.opt_op("<="):
                if self.at_kw("transport", "reject", "inertial", "force", "release"):
                    raise Unsupported("delay mechanism")
                v = self.expr()
                if self.at_kw("after", "when"):
                    raise Unsupported("after/when in sequential assignment")
                self.op(";")
                return SigAssign(tgt, v, line=line)
            if self.opt_op(":="):
                v = self.expr()
                if self.at_kw("when"):
                    raise Unsupported("conditional variable assignment")
                self.op(";")
                return VarAssign(tgt, v, line=line)
            if self.at_op(";"):
                raise Unsupported("procedure call")
        self.err("expected sequential statement")

    def choices(self):
        ch = []
        while True:
            if self.opt_kw("others"):
                ch.append("others")
            else:
                e = self.simple_expr_or_range()
                ch.append(e)
            if not self.opt_op("|"):
                break
        return ch

    def simple_expr_or_range(self):
        e = self.expr()
        if self.at_kw("to", "downto"):
            d = self.t.val
            self.p += 1
            r = self.expr()
            return RangeArg(e, d, r, line=e.line)
        return e

    # -- expressions (LRM 9.1 precedence)
    LOGICAL = ("and", "or", "xor", "nand", "nor", "xnor")
    RELOPS = ("=", "/=", "<", "<=", ">", ">=", "?=", "?/=")
    SHIFTS = ("sll", "srl", "sla", "sra", "rol", "ror")

    def expr(self):
        line = self.t.line
        if self.at_op("??"):
            raise Unsupported("condition operator")
        left = self.relation()
        if self.at_kw(*self.LOGICAL):
            op = self.t.val
            first = True
            while self.at_kw(*self.LOGICAL):
                op2 = self.t.val
                if op2 != op:
                    self.err(f"mixing logical operators {op!r} and {op2!r} without parentheses")
                if not first and op in ("nand", "nor"):
                    self.err(f"{op} is not associative; parentheses required")
                self.p += 1
                right = self.relation()
                left = Binary(op, left, right, line=line)
                first = False
        return left

    def relation(self):
        line = self.t.line
        left = self.shift_expr()
        if self.at_op(*self.RELOPS):
            op = self.t.val
            self.p += 1
            right = self.shift_expr()
            left = Binary(op, left, right, line=line)
            if self.at_op(*self.RELOPS):
                self.err("relational operators are not associative; parentheses required")
        return left

    def shift_expr(self):
        line = self.t.line
        left = self.simple_expr()
        if self.at_kw(*self.SHIFTS):
            op = self.t.val
            self.p += 1
            right = self.simple_expr()
            left = Binary(op, left, right, line=line)
        return left

    def simple_expr(self):
        line = self.t.line
        sign = None
        if self.at_op("+", "-"):
            sign = self.t.val
            self.p += 1
        left = self.term()
        if sign:
            left = Unary(sign, left, line=line)
        while self.at_op("+", "-", "&"):
            op = self.t.val
            self.p += 1
            if self.at_op("+", "-"):
                self.err("sign not allowed after adding operator; parentheses required")
            right = self.term()
            left = Binary(op, left, right, line=line)
        return left

    def term(self):
        line = self.t.line
        left = self.factor()
        while self.at_op("*", "/") or self.at_kw("mod", "rem"):
            op = self.t.val
            self.p += 1
            if self.at_op("+", "-"):
                self.err("sign not allowed after multiplying operator; parentheses required")
            right = self.factor()
            left = Binary(op, left, right, line=line)
        return left

    def factor(self):
        line = self.t.line
        if self.at_kw("abs", "not"):
            op = self.t.val
            self.p += 1
            return Unary(op, self.primary(), line=line)
        if self.at_kw("and", "or", "xor", "nand", "nor", "xnor"):
            raise Unsupported("unary reduction operator")
        left = self.primary()
        if self.at_op("**"):
            self.p += 1
            right = self.primary()
            left = Binary("**", left, right, line=line)
        return left

    def primary(self):
        t = self.t
        line = t.line
        if t.kind == "num":
            self.p += 1
            if self.at("id"):
                raise Unsupported("physical literal")
            return IntLit(t.val, line=line)
        if t.kind == "str":
            self.p += 1
            return StrLit(t.val, line=line)
        if t.kind == "char":
            self.p += 1
            return CharLit(t.val, line=line)
        if t.kind == "op" and t.val == "(":
            return self.paren_or_aggregate()
        if t.kind == "id":
            return self.name()
        if t.kind == "kw" and t.val in ("new", "null", "open"):
            raise Unsupported(f"primary {t.val}")
        if t.kind == "kw":
            self.err(f"reserved word {t.raw!r} used as a name")
        self.err("expected primary")

    def paren_or_aggregate(self):
        line = self.t.line
        self.op("(")
        items = []
        named = False
        while True:
            if self.at_kw("others"):
                self.p += 1
                self.op("=>")
                v = self.expr()
                items.append(Assoc(["others"], v, line=line))
                named = True
            else:
                e = self.simple_expr_or_range()
                if self.at_op("|") or self.at_op("=>"):
                    ch = [e]
                    while self.opt_op("|"):
                        ch.append(self.simple_expr_or_range())
                    self.op("=>")
                    v = self.expr()
                    items.append(Assoc(ch, v, line=line))
                    named = True
                else:
                    if isinstance(e, RangeArg):
                        self.err("range in expression")
                    items.append(e)
            if not self.opt_op(","):
                break
        self.op(")")
        if len(items) == 1 and not named:
            return Paren(items[0], line=line)
        return Aggregate(items, line=line)

    def name(self):
        line = self.t.line
        t = self.ident()
        node = Name(t.val, line=line)
        node_raw = t.raw
        while True:
            if self.at_op("("):
                self.p += 1
                args = []
                while True:
                    l = self.t.line
                    e = self.simple_expr_or_range()
                    if self.at_op("=>"):
                        raise Unsupported("named association in call")
                    args.append(e)
                    if not self.opt_op(","):
                        break
                self.op(")")
                node = Apply(node, args, line=line)
            elif self.at_op("'"):
                self.p += 1
                if self.at_op("("):
                    # qualified expression: mark'(expr) or mark'aggregate
                    inner = self.paren_or_aggregate()
                    if not isinstance(node, Name):
                        self.err("qualified expression needs a type mark")
                    node = Qualified(node.ident, inner, line=line)
                else:
                    if self.at("kw", "range"):
                        a = "range"
                        self.p += 1
                    else:
                        a = self.ident().val
                    node = Attr(node, a, line=line)
            elif self.at_op("."):
                self.p += 1
                if self.at_kw("all"):
                    raise Unsupported(".all")
                s = self.ident().val
                node = Selected(node, s, line=line)
            else:
                return node


def parse(text: str):
    return Parser(text).design_file()

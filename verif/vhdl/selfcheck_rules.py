"""Self-check of vsim's static rules (the oracle of C05/C06/C07/C08/C12): a table of small hand-written VHDL designs,
each with the rule that must be reported (or None = must be clean).  Run by `python -m verif.selftest`.

The positive side (no finding on legal text) is additionally covered by the 258 upstream reference testbenches; this table
pins the negative side: every rule fires on a minimal illegal design and stays silent on its legal twin.
"""
from __future__ import annotations

from .elab import compile_design
from .parser import Unsupported, VhdlSyntaxError

HEAD = """library ieee;
use ieee.std_logic_1164.all;
use ieee.numeric_std.all;
"""


def ent(name, ports, decls, body):
    p = f"  port (\n    {';\n    '.join(ports)}\n  );\n" if ports else ""
    return (f"{HEAD}entity {name} is\n{p}end {name};\narchitecture arch_{name} of {name} is\n{decls}begin\n{body}"
            f"end architecture arch_{name};\n")


LEAF = ent("leaf", ["u : in unsigned(1 downto 0)", "x : in std_logic_vector(2 downto 0)", "p : out unsigned(2 downto 0)"],
           "", "  p <= unsigned(x) + u;\n")


def top(portmap, decls="", extra=""):
    return LEAF + ent("t", ["i : in std_logic_vector(3 downto 0)", "j : in unsigned(2 downto 0)",
                            "o : out std_logic_vector(2 downto 0)", "q : out unsigned(2 downto 0)"],
                      "  signal so : std_logic_vector(2 downto 0);\n  signal sq : unsigned(2 downto 0);\n" + decls,
                      f"  o <= so;\n  q <= sq;\n{extra}  c: entity work.leaf\n    port map(\n    {portmap}\n    );\n")


def simple(body, decls="", ports=("a : in std_logic", "b : in std_logic_vector(3 downto 0)", "u : in unsigned(3 downto 0)",
                                  "o : out std_logic", "v : out std_logic_vector(3 downto 0)", "w : out unsigned(3 downto 0)")):
    return ent("t", list(ports), decls, body)


# (name, text, expected rule or None)
CASES = [
    # ---- port maps with type conversions (VHDL association elements)
    ("pm/plain-ok", top("u => j(1 downto 0),\n    x => i(2 downto 0),\n    p => sq") + "", None),
    ("pm/actual-conv-ok", top("u => unsigned(i(1 downto 0)),\n    x => std_logic_vector(j),\n    p => sq"), None),
    ("pm/formal-conv-ok", top("u => j(1 downto 0),\n    x => i(2 downto 0),\n    std_logic_vector(p) => so"), None),
    ("pm/missing-conv-in", top("u => i(1 downto 0),\n    x => i(2 downto 0),\n    p => sq"), "portmap"),
    ("pm/missing-conv-in2", top("u => j(1 downto 0),\n    x => j,\n    p => sq"), "portmap"),
    ("pm/missing-conv-out", top("u => j(1 downto 0),\n    x => i(2 downto 0),\n    p => so"), "portmap"),
    ("pm/wrong-conv-in", top("u => signed(i(1 downto 0)),\n    x => i(2 downto 0),\n    p => sq"), "portmap"),
    ("pm/wrong-conv-out", top("u => j(1 downto 0),\n    x => i(2 downto 0),\n    signed(p) => so"), "portmap"),
    ("pm/conv-on-formal-of-input", top("unsigned(u) => j(1 downto 0),\n    x => i(2 downto 0),\n    p => sq"), "portmap"),
    ("pm/conv-on-actual-of-output", top("u => j(1 downto 0),\n    x => i(2 downto 0),\n    p => unsigned(so)"), "portmap"),
    ("pm/width", top("u => j,\n    x => i(2 downto 0),\n    p => sq"), "width"),
    ("pm/conv-width", top("u => unsigned(i(2 downto 0)),\n    x => i(2 downto 0),\n    p => sq"), "width"),
    ("pm/unknown-port", top("u => j(1 downto 0),\n    x => i(2 downto 0),\n    zz => sq"), "portmap"),
    ("pm/twice", top("u => j(1 downto 0),\n    u => j(1 downto 0),\n    x => i(2 downto 0),\n    p => sq"), "portmap"),
    ("pm/unassociated-input", top("u => j(1 downto 0),\n    p => sq"), "portmap"),
    ("pm/output-to-input-port", top("u => j(1 downto 0),\n    x => i(2 downto 0),\n    p => j"), "write-input"),
    # ---- names
    ("name/ok", simple("  o <= a;\n  v <= b;\n  w <= u;\n"), None),
    ("name/unresolved", simple("  o <= nope;\n  v <= b;\n  w <= u;\n"), "unresolved"),
    ("name/duplicate", simple("  o <= a;\n  v <= b;\n  w <= u;\n", "  signal s : std_logic;\n  signal S : std_logic;\n"), "duplicate"),
    ("name/duplicate-port", simple("  o <= a;\n", "  signal a : std_logic;\n"), "duplicate"),
    ("name/hidden-predefined", simple("  o <= a;\n  w <= unsigned(b);\n", "  signal unsigned : std_logic;\n"), ("hidden-predefined", "type")),
    ("name/hidden-fn", simple("  w <= to_unsigned(1, 4);\n", "  signal to_unsigned : std_logic;\n"), ("hidden-predefined", "type")),
    # ---- types / widths / overloads
    ("type/slv-to-unsigned", simple("  w <= b;\n"), "type"),
    ("type/width", simple("  v <= b(2 downto 0);\n"), "width"),
    ("type/conv-ok", simple("  w <= unsigned(b);\n  v <= std_logic_vector(u);\n"), None),
    ("type/bit-to-vec", simple("  v <= a;\n"), "type"),
    ("type/ambiguous-literal-conv", simple("  w <= unsigned(\"0000\");\n"), "ambiguous"),
    ("type/qualified-ok", simple("  w <= unsigned'(\"0000\");\n"), None),
    ("type/add-slv", simple("  v <= b + b;\n"), "type"),
    ("type/add-ok", simple("  w <= u + u;\n  v <= std_logic_vector(u + 1);\n"), None),
    ("type/slice-direction", simple("  v(1 downto 0) <= b(0 to 1);\n"), "slice-direction"),
    # ---- ports
    ("port/read-out", simple("  o <= a;\n  v(0) <= o;\n"), "read-out-port"),
    ("port/write-input", simple("  a <= '1';\n"), "write-input"),
    # ---- processes
    ("proc/ok", simple("  p: process(a, b)\n  begin\n    o <= a;\n    v <= b;\n  end process;\n"), None),
    ("proc/sensitivity", simple("  p: process(a)\n  begin\n    o <= a;\n    v <= b;\n  end process;\n"), "sensitivity"),
    ("proc/sens-elements-ok", simple("  p: process(b(0), b(1))\n  begin\n    if b(1) = '1' then\n      o <= '0';\n    elsif rising_edge(b(0)) then\n      o <= a;\n    end if;\n  end process;\n"), None),
    ("proc/sens-other-element-missing", simple("  p: process(b(0))\n  begin\n    if b(1) = '1' then\n      o <= '0';\n    elsif rising_edge(b(0)) then\n      o <= a;\n    end if;\n  end process;\n"), "sensitivity"),
    ("proc/sens-slice-covers-ok", simple("  p: process(b(1 downto 0))\n  begin\n    if b(1) = '1' then\n      o <= '0';\n    elsif rising_edge(b(0)) then\n      o <= a;\n    end if;\n  end process;\n"), None),
    ("proc/sens-async-reset-missing", simple("  p: process(a)\n  begin\n    if b(1) = '1' then\n      o <= '0';\n    elsif rising_edge(a) then\n      o <= b(0);\n    end if;\n  end process;\n"), "sensitivity"),
    ("proc/clocked-ok", simple("  p: process(a)\n  begin\n    if rising_edge(a) then\n      v <= b;\n    end if;\n  end process;\n"), None),
    ("proc/wait-ok", simple("  p: process\n  begin\n    o <= '1';\n    wait;\n  end process;\n"), None),
    ("proc/empty-sens", simple("  p: process()\n  begin\n    o <= '1';\n  end process;\n"), "syntax"),
    ("proc/var-outside", simple("  p: process(a)\n    variable t : std_logic;\n  begin\n    t := a;\n    o <= t;\n  end process;\n  v(0) <= t;\n"), "unresolved"),
    # ---- case
    ("case/ok", simple("  p: process(b)\n  begin\n    case b(1 downto 0) is\n      when \"00\" => o <= '0';\n      when others => o <= '1';\n    end case;\n  end process;\n"), None),
    ("case/no-others", simple("  p: process(b)\n  begin\n    case b(1 downto 0) is\n      when \"00\" => o <= '0';\n      when \"01\" => o <= '1';\n    end case;\n  end process;\n"), "case-no-others"),
    ("case/dup-choice", simple("  p: process(b)\n  begin\n    case b(1 downto 0) is\n      when \"00\" => o <= '0';\n      when \"00\" => o <= '1';\n      when others => o <= '1';\n    end case;\n  end process;\n"), "case-choice"),
    ("case/choice-width", simple("  p: process(b)\n  begin\n    case b(1 downto 0) is\n      when \"000\" => o <= '0';\n      when others => o <= '1';\n    end case;\n  end process;\n"), ("case-choice", "width")),
    # ---- drivers
    ("drv/two-conc-blocks", simple("  -- CONCURRENT BLOCK (buffer assignment)\n  o <= a;\n  -- CONCURRENT BLOCK (logic)\n  o <= not a;\n"), "multi-driver"),
    # statements of one emitted concurrent block count as one driver for `multi_driven` (C07 wording), but are
    # still reported per statement in `multi_driven_stmt`
    ("drv/two-conc-one-block", simple("  o <= a;\n  o <= not a;\n"), "multi-driver-stmt"),
    ("drv/proc-and-conc", simple("  o <= a;\n  p: process(a)\n  begin\n    o <= a;\n  end process;\n"), "multi-driver"),
    ("drv/disjoint-bits-ok", simple("  v(1 downto 0) <= b(1 downto 0);\n  p: process(b)\n  begin\n    v(3 downto 2) <= b(3 downto 2);\n  end process;\n"), None),
    ("drv/overlap-bits", simple("  v(2 downto 0) <= b(2 downto 0);\n  p: process(b)\n  begin\n    v(3 downto 2) <= b(3 downto 2);\n  end process;\n"), "multi-driver"),
]


def rules_of(text):
    d = compile_design(text, top="t")
    rules = [f.rule for f in d.findings]
    if d.multi_driven:
        rules.append("multi-driver")
    if d.multi_driven_stmt:
        rules.append("multi-driver-stmt")
    return rules


def run():
    bad = []
    for name, text, want in CASES:
        try:
            got = rules_of(text)
        except VhdlSyntaxError:
            got = ["syntax"]
        except Unsupported as ex:
            bad.append((name, f"unsupported: {ex}"))
            continue
        if want is None:
            if got:
                bad.append((name, f"expected clean, got {got}"))
        elif not set(got) & set([want] if isinstance(want, str) else want):
            bad.append((name, f"expected {want}, got {got}"))
    if bad:
        raise AssertionError("vsim rule self-check failed:\n" + "\n".join(f"  {n}: {m}" for n, m in bad))
    return len(CASES)


if __name__ == "__main__":
    print(run(), "rule cases ok")

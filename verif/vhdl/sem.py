"""Name resolution, overload resolution / type checking (vfront) and Python code generation (vsim)
for the VHDL subset.  One Analyzer instance handles one entity *instance*; static findings are
de-duplicated per entity by the caller.
"""
from __future__ import annotations

from . import parser as P
from .parser import Unsupported

# ----------------------------------------------------------------------------
# types
# ----------------------------------------------------------------------------
SL = ("sl",)
BOOL = ("bool",)
INT = ("int",)
STR = ("str",)
SEV = ("sev",)


def VEC(kind, w):
    return ("vec", kind, w)


def is_vec(t):
    return t[0] == "vec"


def tname(t):
    if t is None:
        return "?"
    if t[0] == "vec":
        return {"slv": "std_logic_vector", "uns": "unsigned", "sgn": "signed"}[t[1]] + f"({t[2]})"
    if t[0] == "enum":
        return t[1]
    if t[0] == "arr":
        return t[1]
    return {"sl": "std_logic", "bool": "boolean", "int": "integer", "str": "string", "sev": "severity_level"}[t[0]]


def default_value(t):
    k = t[0]
    if k == "sl":
        return 2
    if k == "bool":
        return False
    if k == "int":
        return -(1 << 31)
    if k == "vec":
        return (0, (1 << t[2]) - 1)
    if k == "enum":
        return 0
    if k == "arr":
        return tuple(default_value(t[3]) for _ in range(t[2]))
    raise Unsupported(f"default of {t}")


def scalar_count(t):
    k = t[0]
    if k == "vec":
        return t[2]
    if k == "arr":
        return t[2] * scalar_count(t[3])
    return 1


class Finding:
    __slots__ = ("rule", "msg", "line", "entity")

    def __init__(self, rule, msg, line=0, entity=None):
        self.rule = rule
        self.msg = msg
        self.line = line
        self.entity = entity

    def key(self):
        return (self.entity, self.rule, self.msg)

    def __repr__(self):
        return f"[{self.rule}] {self.entity}:{self.line}: {self.msg}"


class TypeErr(Exception):
    def __init__(self, msg, rule="type"):
        super().__init__(msg)
        self.rule = rule


# ----------------------------------------------------------------------------
# scopes
# ----------------------------------------------------------------------------
class Entry:
    __slots__ = ("kind", "name", "ty", "mode", "store", "sid", "path", "predefined", "overloads", "region", "decl_line", "extra")

    def __init__(self, kind, name, **kw):
        self.kind = kind  # obj-signal, obj-variable, obj-constant, type, utype, enumlit, func, label, lib, attr, pkg
        self.name = name
        self.ty = kw.get("ty")
        self.mode = kw.get("mode")  # in/out/inout for ports, None otherwise
        self.store = kw.get("store")  # 'S','V','C'
        self.sid = kw.get("sid")  # signal id / var id / constant code
        self.path = kw.get("path", ())  # static path for bound ports: tuple of ('bit',i)|('slice',hi,lo)|('idx',i)
        self.predefined = kw.get("predefined", False)
        self.overloads = kw.get("overloads")
        self.region = kw.get("region")
        self.decl_line = kw.get("line", 0)
        self.extra = kw.get("extra")


class Scope:
    def __init__(self, parent=None, region=""):
        self.parent = parent
        self.names: dict[str, Entry] = {}
        self.region = region

    def lookup(self, name):
        s = self
        while s is not None:
            e = s.names.get(name)
            if e is not None:
                return e
            s = s.parent
        return None


PREDEF_FUNCS = {
    "rising_edge", "falling_edge", "resize", "to_integer", "to_unsigned", "to_signed", "shift_left", "shift_right",
    "rotate_left", "rotate_right", "std_match", "to_01", "is_x", "to_x01", "to_stdlogicvector", "to_stdulogic",
    "to_bit", "to_bitvector", "to_stdulogicvector", "to_ux01", "to_x01z", "maximum", "minimum", "find_leftmost",
    "find_rightmost", "to_string", "now",
}
SUPPORTED_FUNCS = {"rising_edge", "falling_edge", "resize", "to_integer", "to_unsigned", "to_signed", "shift_left",
                   "shift_right", "rotate_left", "rotate_right"}


def root_scope(context):
    """Names made visible by the context clause.  STANDARD is always visible; std_logic_1164 and
    numeric_std only if a matching use clause is present."""
    s = Scope(None, "predefined")

    def add(e):
        e.predefined = True
        s.names[e.name] = e

    add(Entry("type", "boolean", ty=BOOL))
    add(Entry("type", "integer", ty=INT))
    add(Entry("type", "natural", ty=INT, extra="natural"))
    add(Entry("type", "positive", ty=INT, extra="positive"))
    add(Entry("type", "string", ty=STR))
    add(Entry("type", "severity_level", ty=SEV))
    for n in ("bit", "bit_vector", "character", "real", "time", "delay_length", "boolean_vector", "integer_vector"):
        add(Entry("type", n, ty=None, extra="unsupported"))
    add(Entry("enumlit", "true", overloads=[(BOOL, 1)]))
    add(Entry("enumlit", "false", overloads=[(BOOL, 0)]))
    for i, n in enumerate(("note", "warning", "error", "failure")):
        add(Entry("enumlit", n, overloads=[(SEV, i)]))
    add(Entry("lib", "work"))
    add(Entry("lib", "std"))
    libs = set()
    uses = set()
    for c in context:
        if c[0] == "library":
            libs.update(c[1])
        else:
            uses.add(tuple(c[1]))
    for l in libs:
        add(Entry("lib", l))
    if ("ieee", "std_logic_1164", "all") in uses:
        if "ieee" not in libs:
            raise TypeErr("use of library ieee without library clause", "unresolved")
        add(Entry("type", "std_logic", ty=SL))
        add(Entry("type", "std_ulogic", ty=SL))
        add(Entry("utype", "std_logic_vector", extra="slv"))
        add(Entry("utype", "std_ulogic_vector", extra="slv"))
        for n in ("x01", "x01z", "ux01", "ux01z"):
            add(Entry("type", n, ty=SL))
        for n in ("rising_edge", "falling_edge", "to_x01", "is_x", "to_stdlogicvector", "to_stdulogic", "to_bit",
                  "to_bitvector", "to_stdulogicvector", "to_ux01", "to_x01z", "to_01", "resolved"):
            add(Entry("func", n))
    if ("ieee", "numeric_std", "all") in uses:
        if "ieee" not in libs:
            raise TypeErr("use of library ieee without library clause", "unresolved")
        add(Entry("utype", "unsigned", extra="uns"))
        add(Entry("utype", "signed", extra="sgn"))
        add(Entry("utype", "unresolved_unsigned", extra="uns"))
        add(Entry("utype", "unresolved_signed", extra="sgn"))
        for n in ("resize", "to_integer", "to_unsigned", "to_signed", "shift_left", "shift_right", "rotate_left",
                  "rotate_right", "std_match", "to_01", "maximum", "minimum", "find_leftmost", "find_rightmost"):
            add(Entry("func", n))
    for u in uses:
        if u not in (("ieee", "std_logic_1164", "all"), ("ieee", "numeric_std", "all")):
            raise Unsupported(f"use clause {'.'.join(u)}")
    return s


STD_CHARS = set("UX01ZWLH-")

LOGICAL = {"and": "and", "or": "or", "xor": "xor", "nand": "nand", "nor": "nor", "xnor": "xnor"}
RELOPS = {"=", "/=", "<", "<=", ">", ">="}
PYCMP = {"=": "==", "/=": "!=", "<": "<", "<=": "<=", ">": ">", ">=": ">="}


class Ref:
    """A resolved object name (possibly indexed / sliced)."""
    __slots__ = ("entry", "steps", "ty", "static_path")

    def __init__(self, entry, steps, ty):
        self.entry = entry
        self.steps = steps  # list of ('idx', code, n, elemty) | ('bit', code, w) | ('slice', hi, lo)
        self.ty = ty


class ExprMixin:
    """Expression analysis: candidate types + python code.  Mixed into Analyzer."""

    # ---- helpers ----
    def err(self, msg, rule="type"):
        raise TypeErr(msg, rule)

    def static_int(self, node):
        if isinstance(node, P.IntLit):
            return node.value
        if isinstance(node, P.Paren):
            return self.static_int(node.expr)
        if isinstance(node, P.Unary) and node.op in "+-":
            v = self.static_int(node.operand)
            return -v if node.op == "-" else v
        if isinstance(node, P.Binary) and node.op in ("+", "-", "*"):
            a, b = self.static_int(node.left), self.static_int(node.right)
            return a + b if node.op == "+" else a - b if node.op == "-" else a * b
        raise Unsupported(f"line {node.line}: non-literal static expression")

    def lookup(self, name, line=0):
        e = self.scope.lookup(name)
        if e is None:
            self.err(f"name '{name}' is not declared/visible", "unresolved")
        return e

    def type_from_subtype(self, st):
        e = self.lookup(st.mark, st.line)
        if e.kind == "type":
            if e.ty is None:
                raise Unsupported(f"type {st.mark}")
            if st.constraint is not None:
                self.err(f"constraint on scalar/constrained type {st.mark}")
            return e.ty
        if e.kind == "utype":
            if st.constraint is None:
                self.err(f"unconstrained subtype indication {st.mark}")
            l = self.static_int(st.constraint.left)
            r = self.static_int(st.constraint.right)
            if st.constraint.dir != "downto" or r != 0:
                if st.constraint.dir == "downto" and l < r:
                    return VEC(e.extra, 0)
                raise Unsupported(f"vector range ({l} {st.constraint.dir} {r})")
            return VEC(e.extra, l + 1)
        self.err(f"'{st.mark}' is not a type (it denotes a {e.kind}" + ("" if e.predefined else " declared in this design") + ")",
                 "hidden-predefined" if not e.predefined and st.mark in ALL_PREDEF_NAMES else "type")

    # ---- object references ----
    def resolve_ref(self, node, for_write=False):
        """Resolve a name that must denote an object (signal/variable/constant or part of one)."""
        if isinstance(node, P.Name):
            e = self.lookup(node.ident, node.line)
            if not e.kind.startswith("obj"):
                self.err(f"'{node.ident}' does not denote an object (it is a {e.kind})",
                         "hidden-predefined" if e.predefined is False and node.ident in ALL_PREDEF_NAMES else "type")
            steps = []
            ty = e.ty
            return Ref(e, steps, ty)
        if isinstance(node, P.Apply):
            base = self.resolve_ref(node.prefix, for_write)
            ty = base.ty
            if len(node.args) != 1:
                self.err("multi-dimensional index not supported by any declared type")
            a = node.args[0]
            if isinstance(a, P.RangeArg):
                if not is_vec(ty):
                    if ty[0] == "arr":
                        raise Unsupported("slice of array type")
                    self.err(f"slice of non-array {tname(ty)}")
                if base.steps and base.steps[-1][0] == "slice":
                    raise Unsupported("slice of slice")
                hi = self.static_int(a.left)
                lo = self.static_int(a.right)
                if a.dir != "downto":
                    # LRM 8.5: the direction of the discrete range must be that of the prefix (all emitted vectors are 'downto')
                    self.err(f"slice direction 'to' does not match the object's 'downto' range", "slice-direction")
                if hi < lo:
                    self.err(f"null slice ({hi} downto {lo})")
                if hi >= ty[2] or lo < 0:
                    self.err(f"slice ({hi} downto {lo}) out of range of {tname(ty)}")
                return Ref(base.entry, base.steps + [("slice", hi, lo)], VEC(ty[1], hi - lo + 1))
            # index
            ity, icode = self.resolve(a, INT)
            if ty[0] == "arr":
                return Ref(base.entry, base.steps + [("idx", icode, ty[2], ty[3], self._static_or_none(a))], ty[3])
            if is_vec(ty):
                if base.steps and base.steps[-1][0] == "slice":
                    raise Unsupported("index of slice")
                return Ref(base.entry, base.steps + [("bit", icode, ty[2], None, self._static_or_none(a))], SL)
            self.err(f"indexing a non-array object of type {tname(ty)}")
        if isinstance(node, P.Paren):
            self.err("parenthesised name is not an object name")
        self.err(f"expected an object name, got {type(node).__name__}")

    def _static_or_none(self, node):
        try:
            return self.static_int(node)
        except Unsupported:
            return None

    def ref_read_code(self, ref, line=0):
        e = ref.entry
        self.note_read(e, line, ref)
        if e.store == "S":
            code = f"S[{e.sid}]"
        elif e.store == "V":
            code = self.var_read_code(e)
        else:
            code = e.sid  # constant code
        # bound-port static path first
        code = self._apply_static_path(code, e.path)
        for st in ref.steps:
            if st[0] == "slice":
                code = f"v_slice({code}, {st[1]}, {st[2]})"
            elif st[0] == "bit":
                if st[4] is not None:
                    if not (0 <= st[4] < st[2]):
                        self.err(f"index {st[4]} out of range 0..{st[2]-1}")
                    code = f"v_bit({code}, {st[4]})"
                else:
                    code = f"v_bit({code}, chk_idx({st[1]}, 0, {st[2]-1}))"
            else:
                if st[4] is not None:
                    if not (0 <= st[4] < st[2]):
                        self.err(f"index {st[4]} out of range 0..{st[2]-1}")
                    code = f"{code}[{st[4]}]"
                else:
                    code = f"{code}[chk_idx({st[1]}, 0, {st[2]-1})]"
        return code

    def _apply_static_path(self, code, path):
        for st in path:
            if st[0] == "slice":
                code = f"v_slice({code}, {st[1]}, {st[2]})"
            elif st[0] == "bit":
                code = f"v_bit({code}, {st[1]})"
            else:
                code = f"{code}[{st[1]}]"
        return code

    # ---- candidates ----
    def cands(self, node):
        """list of (type, code) alternatives for an expression, determined bottom-up."""
        key = id(node)
        c = self._cache.get(key)
        if c is None:
            c = self._cands(node)
            self._cache[key] = c
            self._keep.append(node)
        return c

    def resolve(self, node, expected=None, what="expression"):
        """Pick the unique interpretation of node (of type `expected` if given)."""
        if isinstance(node, P.Aggregate):
            return self.aggregate(node, expected)
        if isinstance(node, P.Paren) and isinstance(node.expr, P.Aggregate):
            return self.aggregate(node.expr, expected)
        cs = self.cands(node)
        if expected is not None:
            sel = [c for c in cs if c[0] == expected]
            if not sel:
                # width mismatch gets its own rule name
                got = ", ".join(sorted({tname(c[0]) for c in cs})) or "no interpretation"
                rule = "type"
                if is_vec(expected) and any(is_vec(c[0]) and c[0][1] == expected[1] for c in cs):
                    rule = "width"
                self.err(f"line {node.line}: {what}: expected {tname(expected)}, found {got}", rule)
        else:
            sel = cs
            if not sel:
                self.err(f"line {node.line}: {what}: no valid interpretation")
        tys = {c[0] for c in sel}
        if len(tys) > 1:
            self.err(f"line {node.line}: {what}: ambiguous ({', '.join(sorted(tname(t) for t in tys))})", "ambiguous")
        return sel[0]

    def _cands(self, node):
        if isinstance(node, P.IntLit):
            return [(INT, str(node.value))]
        if isinstance(node, P.CharLit):
            if node.value not in STD_CHARS:
                raise Unsupported(f"character literal '{node.value}'")
            e = self.scope.lookup("std_logic")
            if e is None or e.kind != "type" or e.ty != SL:
                self.err(f"character literal '{node.value}': type std_logic is not visible", "hidden-predefined")
            v = {"1": 1, "H": 1, "0": 0, "L": 0}.get(node.value, 2)
            return [(SL, str(v))]
        if isinstance(node, P.StrLit):
            s = node.value
            out = [(STR, repr(s))]
            if all(ch in STD_CHARS for ch in s):
                from .rt import v_from_str

                code = repr(v_from_str(s))
                for k, tn in (("slv", "std_logic_vector"), ("uns", "unsigned"), ("sgn", "signed")):
                    e = self.scope.lookup(tn)
                    if e is not None and e.kind == "utype" and e.extra == k:
                        out.append((VEC(k, len(s)), code))
            return out
        if isinstance(node, P.Paren):
            return self.cands(node.expr)
        if isinstance(node, P.Name):
            e = self.lookup(node.ident, node.line)
            if e.kind.startswith("obj"):
                r = Ref(e, [], e.ty)
                return [(e.ty, self.ref_read_code(r, node.line))]
            if e.kind == "enumlit":
                return [(t, str(pos)) for t, pos in e.overloads]
            if e.kind == "func":
                self.err(f"function '{node.ident}' called without arguments")
            self.err(f"'{node.ident}' ({e.kind}) cannot be used as a value",
                     "hidden-predefined" if node.ident in ALL_PREDEF_NAMES and not e.predefined else "type")
        if isinstance(node, P.Qualified):
            return self.qualified(node)
        if isinstance(node, P.Apply):
            return self.apply(node)
        if isinstance(node, P.Unary):
            return self.unary(node)
        if isinstance(node, P.Binary):
            return self.binary(node)
        if isinstance(node, P.Aggregate):
            self.err(f"line {node.line}: aggregate in a context that does not determine its type", "ambiguous")
        if isinstance(node, P.Attr):
            raise Unsupported(f"attribute '{node.attr}")
        if isinstance(node, P.Selected):
            raise Unsupported("selected name in expression")
        raise Unsupported(f"expression node {type(node).__name__}")

    def qualified(self, node):
        e = self.lookup(node.mark, node.line)
        if e.kind == "type":
            if e.ty is None:
                raise Unsupported(f"type {node.mark}")
            inner = node.expr
            t, c = self.resolve(inner, e.ty, f"qualified expression {node.mark}'(...)")
            return [(t, c)]
        if e.kind == "utype":
            inner = node.expr
            if isinstance(inner, P.Aggregate) or (isinstance(inner, P.Paren) and isinstance(inner.expr, P.Aggregate)):
                raise Unsupported("qualified aggregate of unconstrained type")
            cs = [c for c in self.cands(inner) if is_vec(c[0]) and c[0][1] == e.extra]
            if not cs:
                got = ", ".join(sorted({tname(c[0]) for c in self.cands(inner)}))
                self.err(f"line {node.line}: qualified expression {node.mark}'(...): operand is {got}")
            if len({c[0] for c in cs}) > 1:
                self.err(f"line {node.line}: ambiguous qualified expression", "ambiguous")
            return [cs[0]]
        self.err(f"line {node.line}: '{node.mark}' in qualified expression is not a type (it is a {e.kind})",
                 "hidden-predefined" if node.mark in ALL_PREDEF_NAMES and not e.predefined else "type")

    def aggregate(self, node, expected):
        if expected is None:
            self.err(f"line {node.line}: aggregate type cannot be determined from context", "ambiguous")
        if expected[0] == "arr":
            n, et = expected[2], expected[3]
            elems = [None] * n
            others = None
            pos = 0
            for it in node.items:
                if isinstance(it, P.Assoc):
                    _, vc = self.resolve(it.value, et, "aggregate element")
                    for ch in it.choices:
                        if ch == "others":
                            others = vc
                        elif isinstance(ch, P.RangeArg):
                            raise Unsupported("range choice in aggregate")
                        else:
                            i = self.static_int(ch)
                            if not (0 <= i < n):
                                self.err(f"line {node.line}: aggregate choice {i} out of range 0..{n-1}")
                            if elems[i] is not None:
                                self.err(f"line {node.line}: aggregate choice {i} given twice")
                            elems[i] = vc
                else:
                    if pos >= n:
                        self.err(f"line {node.line}: too many elements in aggregate")
                    _, vc = self.resolve(it, et, "aggregate element")
                    elems[pos] = vc
                    pos += 1
            for i in range(n):
                if elems[i] is None:
                    if others is None:
                        self.err(f"line {node.line}: aggregate has no value for index {i}")
                    elems[i] = others
            return (expected, "(" + ", ".join(elems) + ",)")
        if is_vec(expected):
            w = expected[2]
            elems = [None] * w
            others = None
            for it in node.items:
                if not isinstance(it, P.Assoc):
                    raise Unsupported("positional vector aggregate")
                _, vc = self.resolve(it.value, SL, "aggregate element")
                for ch in it.choices:
                    if ch == "others":
                        others = vc
                    elif isinstance(ch, P.RangeArg):
                        raise Unsupported("range choice in aggregate")
                    else:
                        i = self.static_int(ch)
                        if not (0 <= i < w):
                            self.err(f"line {node.line}: aggregate choice {i} out of range")
                        elems[i] = vc
            code = "(0, 0)"
            for i in range(w):
                c = elems[i] if elems[i] is not None else others
                if c is None:
                    self.err(f"line {node.line}: aggregate has no value for index {i}")
                code = f"v_setbit({code}, {i}, {c})"
            return (expected, code)
        self.err(f"line {node.line}: aggregate for non-composite type {tname(expected)}")

    # ---- calls / conversions / indexing ----
    def apply(self, node):
        pre = node.prefix
        if isinstance(pre, P.Name):
            e = self.lookup(pre.ident, pre.line)
            if e.kind in ("type", "utype"):
                return self.conversion(node, e)
            if e.kind == "func":
                return self.call(node, e)
            if e.kind.startswith("obj"):
                r = self.resolve_ref(node)
                return [(r.ty, self.ref_read_code(r, node.line))]
            self.err(f"line {node.line}: '{pre.ident}' ({e.kind}) cannot be called or indexed",
                     "hidden-predefined" if pre.ident in ALL_PREDEF_NAMES and not e.predefined else "type")
        if isinstance(pre, P.Apply):
            # either an object path a(i)(j) or indexing/slicing of a call/conversion result
            root = pre
            while isinstance(root, P.Apply):
                root = root.prefix
            if isinstance(root, P.Name):
                e = self.lookup(root.ident, root.line)
                if e.kind.startswith("obj"):
                    r = self.resolve_ref(node)
                    return [(r.ty, self.ref_read_code(r, node.line))]
            return self.index_value(node)
        raise Unsupported(f"line {node.line}: call/index prefix {type(pre).__name__}")

    def index_value(self, node):
        """index or slice applied to a function call / conversion result (VHDL-2008 allows a function
        call as a prefix; a type conversion is not a name and may not be a prefix)."""
        root = node.prefix
        inner = root
        while isinstance(inner, P.Apply) and not isinstance(inner.prefix, P.Name):
            inner = inner.prefix
        if isinstance(inner, P.Apply) and isinstance(inner.prefix, P.Name):
            e = self.lookup(inner.prefix.ident)
            if e.kind in ("type", "utype"):
                self.err(f"line {node.line}: a type conversion cannot be indexed or sliced (not a name)", "syntax")
        base = [c for c in self.cands(node.prefix) if is_vec(c[0]) or c[0][0] == "arr"]
        if len(base) != 1:
            self.err(f"line {node.line}: cannot index expression")
        ty, code = base[0]
        a = node.args[0]
        if len(node.args) != 1:
            self.err("too many indices")
        if isinstance(a, P.RangeArg):
            raise Unsupported("slice of function result")
        _, ic = self.resolve(a, INT)
        if is_vec(ty):
            return [(SL, f"v_bit({code}, chk_idx({ic}, 0, {ty[2]-1}))")]
        return [(ty[3], f"{code}[chk_idx({ic}, 0, {ty[2]-1})]")]

    def conversion(self, node, e):
        if len(node.args) != 1 or isinstance(node.args[0], P.RangeArg):
            self.err(f"line {node.line}: type conversion takes exactly one operand")
        arg = node.args[0]
        inner = arg
        while isinstance(inner, P.Paren):
            inner = inner.expr
        if isinstance(inner, (P.StrLit, P.Aggregate)):
            self.err(f"line {node.line}: operand of a type conversion must be determinable without context "
                     f"(string literal / aggregate is not allowed here)", "ambiguous")
        cs = self.cands(arg)
        tys = {c[0] for c in cs}
        if len(tys) != 1:
            self.err(f"line {node.line}: operand of type conversion is ambiguous or invalid "
                     f"({', '.join(sorted(tname(t) for t in tys))})", "ambiguous")
        ty, code = cs[0]
        if e.kind == "utype":
            if not is_vec(ty):
                self.err(f"line {node.line}: cannot convert {tname(ty)} to {e.name}")
            return [(VEC(e.extra, ty[2]), code)]
        if e.ty is None:
            raise Unsupported(f"conversion to {e.name}")
        if e.ty == INT:
            if ty != INT:
                self.err(f"line {node.line}: cannot convert {tname(ty)} to integer")
            return [(INT, code)]
        if e.ty == ty:
            return [(ty, code)]
        self.err(f"line {node.line}: cannot convert {tname(ty)} to {e.name}")

    def call(self, node, e):
        name = e.name
        line = node.line
        if e.overloads is not None:  # user function
            out = []
            for f in e.overloads:
                if len(f["params"]) != len(node.args):
                    continue
                codes = []
                ok = True
                for (pn, pt), a in zip(f["params"], node.args):
                    if isinstance(a, P.RangeArg):
                        ok = False
                        break
                    cs = [c for c in self.cands(a) if c[0] == pt]
                    if not cs:
                        ok = False
                        break
                    codes.append(cs[0][1])
                if ok:
                    out.append((f["ret"], f"{f['pyname']}({', '.join(codes)})"))
            if not out:
                self.err(f"line {line}: no matching overload for call to {name}")
            return out
        if name not in SUPPORTED_FUNCS:
            raise Unsupported(f"predefined function {name}")
        args = node.args
        if any(isinstance(a, P.RangeArg) for a in args):
            self.err(f"line {line}: range as function argument")
        if name in ("rising_edge", "falling_edge"):
            if len(args) != 1:
                self.err(f"line {line}: {name} takes one argument")
            r = self.resolve_ref(args[0])
            if r.ty != SL or r.entry.store != "S":
                self.err(f"line {line}: {name} needs a std_logic signal, got {tname(r.ty)} {r.entry.kind}")
            self.note_read(r.entry, line, r)
            self.note_edge()
            cur = self.ref_read_code(r, line)
            last = cur.replace("S[", "L[", 1)
            tgt, old = ("1", "0") if name == "rising_edge" else ("0", "1")
            return [(BOOL, f"({r.entry.sid} in EV and {cur} == {tgt} and {last} == {old})")]
        if name in ("resize", "shift_left", "shift_right", "rotate_left", "rotate_right"):
            if len(args) != 2:
                self.err(f"line {line}: {name} takes two arguments")
            out = []
            for ty, code in self.cands(args[0]):
                if not (is_vec(ty) and ty[1] in ("uns", "sgn")):
                    continue
                if name == "resize":
                    n = self._static_or_none(args[1])
                    if n is None:
                        raise Unsupported("resize with non-static size")
                    if n < 0:
                        self.err(f"line {line}: resize to negative size")
                    f = "resize_u" if ty[1] == "uns" else "resize_s"
                    if n > ty[2] and ty[1] == "uns":
                        out.append((VEC(ty[1], n), code))  # zero extension is the identity on (v, x)
                    else:
                        out.append((VEC(ty[1], n), f"{f}({code}, {ty[2]}, {n})"))
                else:
                    _, nc = self.resolve(args[1], INT, f"{name} count")
                    if name == "shift_right":
                        f = "shift_right_u" if ty[1] == "uns" else "shift_right_s"
                    else:
                        f = name
                    out.append((ty, f"{f}({code}, {nc}, {ty[2]})"))
            if not out:
                got = ", ".join(sorted({tname(c[0]) for c in self.cands(args[0])}))
                self.err(f"line {line}: {name}: first argument must be unsigned/signed, found {got}")
            return out
        if name == "to_integer":
            if len(args) != 1:
                self.err(f"line {line}: to_integer takes one argument")
            out = []
            for ty, code in self.cands(args[0]):
                if is_vec(ty) and ty[1] == "uns":
                    out.append((INT, f"to_integer_u({code})"))
                elif is_vec(ty) and ty[1] == "sgn":
                    out.append((INT, f"to_integer_s({code}, {ty[2]})"))
            if len(out) != 1:
                got = ", ".join(sorted({tname(c[0]) for c in self.cands(args[0])}))
                self.err(f"line {line}: to_integer: argument must be unsigned/signed (found {got})",
                         "ambiguous" if len(out) > 1 else "type")
            return out
        if name in ("to_unsigned", "to_signed"):
            if len(args) != 2:
                self.err(f"line {line}: {name} takes two arguments")
            _, ic = self.resolve(args[0], INT, name)
            n = self._static_or_none(args[1])
            if n is None:
                raise Unsupported(f"{name} with non-static size")
            return [(VEC("uns" if name == "to_unsigned" else "sgn", n), f"{name}({ic}, {n})")]
        raise Unsupported(name)

    # ---- operators ----
    def unary(self, node):
        op = node.op
        out = []
        for ty, code in self.cands(node.operand):
            if op == "not":
                if ty == BOOL:
                    out.append((BOOL, f"(not {code})"))
                elif ty == SL:
                    out.append((SL, f"s_not({code})"))
                elif is_vec(ty):
                    out.append((ty, f"v_not({code}, {ty[2]})"))
            elif op in "+-":
                if ty == INT:
                    out.append((INT, f"({op}{code})"))
                elif is_vec(ty) and ty[1] == "sgn":
                    out.append((ty, f"n_neg({code}, {ty[2]})" if op == "-" else code))
            elif op == "abs":
                if ty == INT:
                    out.append((INT, f"abs({code})"))
                elif is_vec(ty) and ty[1] == "sgn":
                    out.append((ty, f"n_abs({code}, {ty[2]})"))
        if not out:
            got = ", ".join(sorted({tname(c[0]) for c in self.cands(node.operand)}))
            self.err(f"line {node.line}: no operator '{op}' for operand type {got}")
        return out

    def binary(self, node):
        op = node.op
        L = self.cands(node.left)
        R = self.cands(node.right)
        out = []
        for lt, lc in L:
            for rt_, rc in R:
                r = self.binop(op, lt, lc, rt_, rc)
                if r is None:
                    continue
                if r[0] == "__multi__":
                    out.extend(r[1])
                else:
                    out.append(r)
        if not out:
            lg = ", ".join(sorted({tname(c[0]) for c in L}))
            rg = ", ".join(sorted({tname(c[0]) for c in R}))
            self.err(f"line {node.line}: no operator '{op}' for operand types ({lg}) and ({rg})")
        # several interpretations with the same result type => ambiguous only if from different operand
        # types; e.g. "00" = "00" is ambiguous in VHDL too
        seen = {}
        for t, c in out:
            seen.setdefault(t, []).append(c)
        res = []
        for t, cl in seen.items():
            if len(cl) > 1 and len(set(cl)) > 1:
                self.err(f"line {node.line}: operator '{op}' is ambiguous for these operands", "ambiguous")
            res.append((t, cl[0]))
        return res

    def binop(self, op, lt, lc, rt_, rc):
        lk, rk = lt[0], rt_[0]
        if op in LOGICAL:
            if lt == BOOL and rt_ == BOOL:
                if op == "and":
                    return (BOOL, f"({lc} and {rc})")
                if op == "or":
                    return (BOOL, f"({lc} or {rc})")
                if op == "xor":
                    return (BOOL, f"({lc} != {rc})")
                if op == "xnor":
                    return (BOOL, f"({lc} == {rc})")
                if op == "nand":
                    return (BOOL, f"(not ({lc} and {rc}))")
                return (BOOL, f"(not ({lc} or {rc}))")
            if lt == SL and rt_ == SL:
                return (SL, f"s_{op}({lc}, {rc})")
            if lk == "vec" and rk == "vec" and lt[1] == rt_[1]:
                if lt[2] != rt_[2]:
                    raise TypeErr(f"logical operator '{op}' on vectors of different length ({lt[2]} vs {rt_[2]})", "width")
                return (lt, f"v_{op}({lc}, {rc}, {lt[2]})")
            if lk == "vec" and rt_ == SL:
                return (lt, f"v_{op}({lc}, v_rep({rc}, {lt[2]}), {lt[2]})")
            if lt == SL and rk == "vec":
                return (rt_, f"v_{op}(v_rep({lc}, {rt_[2]}), {rc}, {rt_[2]})")
            return None
        if op in RELOPS:
            if lk == "vec" and rk == "vec":
                if lt[1] != rt_[1]:
                    return None
                if lt[1] == "slv":
                    if op == "=":
                        return (BOOL, f"v_eq({lc}, {lt[2]}, {rc}, {rt_[2]})")
                    if op == "/=":
                        return (BOOL, f"(not v_eq({lc}, {lt[2]}, {rc}, {rt_[2]}))")
                    a, b = (lc, lt[2]), (rc, rt_[2])
                    if op == "<":
                        return (BOOL, f"v_lt_lex({a[0]}, {a[1]}, {b[0]}, {b[1]})")
                    if op == ">":
                        return (BOOL, f"v_lt_lex({b[0]}, {b[1]}, {a[0]}, {a[1]})")
                    if op == "<=":
                        return (BOOL, f"(not v_lt_lex({b[0]}, {b[1]}, {a[0]}, {a[1]}))")
                    return (BOOL, f"(not v_lt_lex({a[0]}, {a[1]}, {b[0]}, {b[1]}))")
                sg = lt[1] == "sgn"
                return (BOOL, f"n_cmp({op!r}, {lc}, {lt[2]}, {rc}, {rt_[2]}, {sg})")
            if lk == "vec" and rt_ == INT and lt[1] in ("uns", "sgn"):
                return (BOOL, f"n_cmp_vi({op!r}, {lc}, {lt[2]}, {rc}, {lt[1] == 'sgn'})")
            if lt == INT and rk == "vec" and rt_[1] in ("uns", "sgn"):
                return (BOOL, f"n_cmp_iv({op!r}, {lc}, {rc}, {rt_[2]}, {rt_[1] == 'sgn'})")
            if lt != rt_:
                return None
            if lt == SL:
                if op == "=":
                    return (BOOL, f"s_eq({lc}, {rc})")
                if op == "/=":
                    return (BOOL, f"(not s_eq({lc}, {rc}))")
                if op == "<":
                    return (BOOL, f"s_lt({lc}, {rc})")
                if op == ">":
                    return (BOOL, f"s_lt({rc}, {lc})")
                if op == "<=":
                    return (BOOL, f"(not s_lt({rc}, {lc}))")
                return (BOOL, f"(not s_lt({lc}, {rc}))")
            if lk in ("bool", "int", "enum"):
                return (BOOL, f"({lc} {PYCMP[op]} {rc})")
            if lk == "arr" and op in ("=", "/="):
                return (BOOL, f"({lc} {PYCMP[op]} {rc})")
            if lk in ("str", "sev"):
                return None
            return None
        if op == "&":
            if lk == "vec" and rk == "vec" and lt[1] == rt_[1]:
                return (VEC(lt[1], lt[2] + rt_[2]), f"v_cat({lc}, {lt[2]}, {rc}, {rt_[2]})")
            if lk == "vec" and rt_ == SL:
                return (VEC(lt[1], lt[2] + 1), f"v_cat({lc}, {lt[2]}, s2v({rc}), 1)")
            if lt == SL and rk == "vec":
                return (VEC(rt_[1], rt_[2] + 1), f"v_cat(s2v({lc}), 1, {rc}, {rt_[2]})")
            if lt == SL and rt_ == SL:
                return ("__multi__", [(VEC(k, 2), f"v_cat(s2v({lc}), 1, s2v({rc}), 1)") for k in self.visible_vec_kinds()])
            if lt == STR and rt_ == STR:
                return (STR, f"({lc} + {rc})")
            return None
        if op in ("+", "-", "*", "/", "mod", "rem"):
            if lt == INT and rt_ == INT:
                if op in "+-*":
                    return (INT, f"({lc} {op} {rc})")
                f = {"/": "int_div", "mod": "int_mod", "rem": "int_rem"}[op]
                return (INT, f"{f}({lc}, {rc})")
            if lk == "vec" and rk == "vec" and lt[1] == rt_[1] and lt[1] in ("uns", "sgn"):
                wl, wr = lt[2], rt_[2]
                w = {"+": max(wl, wr), "-": max(wl, wr), "*": wl + wr, "/": wl, "mod": wr, "rem": wr}[op]
                if wl < 1 or wr < 1:
                    return (VEC(lt[1], 0 if op in "+-" else w), "(0, 0)")
                return (VEC(lt[1], w), f"n_arith({op!r}, {lc}, {wl}, {rc}, {wr}, {lt[1] == 'sgn'}, {w})")
            if lk == "vec" and rt_ == INT and lt[1] in ("uns", "sgn"):
                wl = lt[2]
                w = {"+": wl, "-": wl, "*": 2 * wl, "/": wl, "mod": wl, "rem": wl}[op]
                return (VEC(lt[1], w), f"n_arith_vi({op!r}, {lc}, {wl}, {rc}, {lt[1] == 'sgn'}, {w})")
            if lt == INT and rk == "vec" and rt_[1] in ("uns", "sgn"):
                wr = rt_[2]
                w = {"+": wr, "-": wr, "*": 2 * wr, "/": wr, "mod": wr, "rem": wr}[op]
                return (VEC(rt_[1], w), f"n_arith_iv({op!r}, {lc}, {rc}, {wr}, {rt_[1] == 'sgn'}, {w})")
            if op in "+-" and lk == "vec" and lt[1] in ("uns", "sgn") and rt_ == SL:
                # VHDL-2008 numeric_std: vector +/- std_ulogic
                return (lt, f"n_arith({op!r}, {lc}, {lt[2]}, s2v({rc}), 1, False, {lt[2]})" if lt[1] == "uns" else
                        f"n_arith({op!r}, {lc}, {lt[2]}, resize_u(s2v({rc}), 1, 2), 2, True, {lt[2]})")
            if op in "+-" and lt == SL and rk == "vec" and rt_[1] in ("uns", "sgn"):
                return (rt_, f"n_arith({op!r}, s2v({lc}), 1, {rc}, {rt_[2]}, False, {rt_[2]})" if rt_[1] == "uns" else
                        f"n_arith({op!r}, resize_u(s2v({lc}), 1, 2), 2, {rc}, {rt_[2]}, True, {rt_[2]})")
            return None
        if op == "**":
            if lt == INT and rt_ == INT:
                return (INT, f"int_pow({lc}, {rc})")
            return None
        raise Unsupported(f"operator {op}")

    def visible_vec_kinds(self):
        out = []
        for k, tn in (("slv", "std_logic_vector"), ("uns", "unsigned"), ("sgn", "signed")):
            e = self.scope.lookup(tn)
            if e is not None and e.kind == "utype" and e.extra == k:
                out.append(k)
        return out


ALL_PREDEF_NAMES = {
    "boolean", "integer", "natural", "positive", "string", "severity_level", "bit", "bit_vector", "character", "real",
    "time", "true", "false", "note", "warning", "error", "failure", "work", "std", "ieee", "std_logic", "std_ulogic",
    "std_logic_vector", "std_ulogic_vector", "unsigned", "signed", "std_logic_1164", "numeric_std",
} | PREDEF_FUNCS
